#!/usr/bin/env python3
"""Validate /verif/evidence/*.json and MANIFEST.json against the schemas in /root/.vp (run with python3-vt)."""
import json, sys, glob, os
try:
    import jsonschema
except ImportError:
    print("jsonschema not available: run with python3-vt"); sys.exit(2)
bad = 0
ev = json.load(open('/root/.vp/EVIDENCE.schema.json'))
for f in sorted(glob.glob('/verif/evidence/*.json')):
    d = json.load(open(f))
    errs = list(jsonschema.Draft202012Validator(ev).iter_errors(d))
    st = "ok" if not errs else "INVALID: " + "; ".join(e.message[:120] for e in errs[:3])
    if errs: bad += 1
    c = d.get('coverage', {})
    print(f"{os.path.basename(f):10s} tier={d.get('tier'):8s} states={c.get('states')} transitions={c.get('transitions')} traces={c.get('traces_validated_against_impl')} samples={len(c.get('samples') or [])} violations={d.get('violations')} {st}")
mf = json.load(open('/root/.vp/MANIFEST.schema.json'))
errs = list(jsonschema.Draft202012Validator(mf).iter_errors(json.load(open('/verif/MANIFEST.json'))))
print("MANIFEST.json", "ok" if not errs else "INVALID: " + "; ".join(e.message[:160] for e in errs[:3]))
sys.exit(1 if bad or errs else 0)
