#!/usr/bin/env python3
"""Regenerates /verif/MANIFEST.json from the table below (claimed checks) and
properties.jsonl (everything else goes to not_applicable with its reason)."""
import json, os

TECH = "SMT-backed bounded symbolic execution of go/ssa (solver-based checking of the real code)"
NOTE_COMMON = ("trusted base: go/ssa front end, the gosym interpreter (validated by native replay of solver models with observation comparison), "
               "z3 5.1 (cross-checked by z3 4.8.12 in the thorough tier); bounds as stated in the evidence file; ")

CLAIMED = {
 "C12": dict(
   text="EncodeDump/DecodeDump round trip for String/List/Set/Hash/ZSet with symbolic contents (one fully symbolic string per value so that integer-looking strings are inside, every float64 bit pattern as score), integer-looking strings of <= 3 symbolic bytes plus int8/16/32 edge literals, compact encodings built by reference writers (ziplist list/hash/zset with every entry encoding, intset widths, zipmap, quicklist, integer strings, LZF) decoded by the in-repo cupcake decoder to the expected logical value, whole-file encoder -> loader -> ObjEntry round trip with verifying footer, entry conversions, 6/14-bit length boundary",
   note=NOTE_COMMON + "FormatFloat/ParseFloat round trip is a trusted axiom (scores travel as an opaque text term that remembers its source); zset score texts inside ziplists from a concrete list; payload CRCs built with the linked crc64 over the same terms"),
 "C13": dict(
   text="every row of the tool's real command table x arities 1..5 (thorough 1..8) x black/white lists: each argument and prefix is a symbolic byte, so every combination of passing/non-passing keys is a solver-decided path; the rewritten argv is compared with the Redis key-position specification",
   note=NOTE_COMMON + "one-byte arguments and prefixes; Redis' (first,last,step) table is hard-coded on the specification side"),
 "C01": dict(
   text="a reference RDB writer in the harness emits, per skeleton (28 value shapes x 4-6 attribute variants, metadata/multi-key/multi-db/encoded-key skeletons), a byte stream with symbolic field values, contents and length forms together with the expected records; the real loader (Header/NextBinEntry/Footer, readObjectValue, ReadString incl. int and LZF forms, module-aux skipping, createValueDump) runs on it from its SSA and every record field and the payload bytes (type || exact serialized bytes || version || CRC) are asserted for all symbolic values",
   note=NOTE_COMMON + "skeletons are enumerated concretely (strings <= 3 bytes, <= 3 elements, <= 3 keys); DUMP and file CRCs are computed on the oracle side by the tool's own digest over the same byte terms (C11 shows that digest is CRC-64/Jones); hashes split at the 16 MiB mark: 2..4 members of 16 MiB or 3 bytes in every combination over a paged (sparse) file image with the digest stubbed for that run; the package's own unit tests (loader) are also executed by the engine as a self-check of the encoder"),
 "C02": dict(
   text="utils.RestoreRdbEntry with restoreBigRdbEntry, restoreQuicklistEntry, flushAndCheckReply, CompareVersion and the rdb reader helpers run from SSA against a model target: plain RESTORE route (policy x REPLACE support x pre-existing key x six version strings x expiry past/future/none x three ShiftTime values, symbolic payload, ttl, idle, freq), element route for 16 value skeletons (incl. 24/32/64-bit ziplist integers) (classic types, ziplist list/hash/zset with every entry encoding class, intset widths, zipmap incl. zmlen 254 and free bytes, quicklist, integer strings) with symbolic contents, chunked hashes, quicklist route, Bad-data-format fallback, Lua, flush-batch sizes; the model key must hold the source's logical value and ttl, policies none/ignore must leave the target untouched",
   note=NOTE_COMMON + "the model target (tiny Redis) is trusted; the clock is a fixed instant with a symbolic ExpireAt (a symbolic clock needs 64-bit division by 10^6 that no back end decides); zset scores from a concrete list; counterexamples replayed by engine-concrete re-execution (stubbed clock); one known finding (chunked hash + ignore)"),
 "C03": dict(
   text="source side: parseSourceCommand runs on the real RESP decoder over streams built from 14 command templates (SELECT in both letter cases, single/multi-key writes, PING, MULTI/EXEC, sentinel hello, script commands, opinfo, unknown) x 8 filter/target.db/resume configurations with symbolic keys, values, prefixes and start offset; the forwarded items, replayed with a current-database register, must be exactly the surviving commands with byte-identical argv, database and offset. Target side: sendTargetCommand with a producer, a ticker channel fed at a symbolic point and the model target under every interleaving (preemption bound 1, thorough 2): commands sent = items received minus source MULTI/EXEC, in order; nothing left unflushed two ticks after the stream went idle; no empty flush; barrier automaton table",
   note=NOTE_COMMON + "well-formed master histories; k <= 2 commands quick (3 thorough); metric/latency statistics stubbed; channel FIFO semantics are the engine's; schedule-dependent counterexamples replayed by engine-concrete re-execution"),
 "C04": dict(
   text="sendTargetCommand with resume enabled against the model target (MULTI/EXEC semantics): every flushed group is MULTI, commands, [run id, version], offset, EXEC with the offset of the group's last command, never spanning a SELECT, flushes end on group boundaries; the recorded Send trace is cut at EVERY position and replayed into a fresh model: applied data commands = items with Offset <= stored offset; restart leg: LoadCheckpoint reads back exactly what the sender stored and a resumed parser first re-selects the recorded database",
   note=NOTE_COMMON + "cuts fall between commands (a partially received command equals not received); k <= 2 items quick (3 thorough); every tick/arrival interleaving within the preemption bound"),
 "C05": dict(
   text="waitRdbDump ('$<n>' header with 0..2 keep-alive newlines, 1..3 symbolic digits, every read size), Iocopy (one bounded copy from an arbitrary reader position, symbolic max), SendPSyncContinue on +FULLRESYNC/+CONTINUE replies in three letter-case styles with symbolic run id and offset digits followed by '$n' and data over real bufio with symbolic fragmentation, and runIncrementalSync end to end (RDB loop, pSyncPipeCopy, reconnect with scripted second connection) into the real pipe: the consumer sees exactly the n RDB bytes then the command bytes, in order, across segmentations and the reconnect; run id / offset / size are the announced ones; the request is PSYNC runid offset+1",
   note=NOTE_COMMON + "RDB <= 3 bytes, command bytes <= 4; {1, half, all} fragmentation for the PSYNC reply family; dump mode (dbDumper.dump/sendCmd/dumpRDBFile) over a scripted connection and an in-memory file, also with progress timers that may fire at any moment and slow output; network dialing stubbed"),
 "C08": dict(
   text="pSyncPipeCopy with a scripted source connection (1..3 reads of symbolic size, then a read error) and the 1 s ticker replaced by a channel the harness feeds before any read: every REPLCONF ACK after full sync must equal start offset + bytes received so far, be non-decreasing and never ahead, 0 before full sync; returned byte count and forwarded bytes exact; after a drop runIncrementalSync must ask PSYNC runid (start + received + 1); a refused PSYNC (error reply, PSYNC2-style reply, drop) must not move the offset the next reconnect asks for; parser tagging offset = start + decoder position (VF_C03_Parse); SendPSyncContinue request side",
   note=NOTE_COMMON + "two known findings (acknowledged offset runs ahead from the second tick; PSYNC after a drop re-requests bytes received since the last tick), both from the same bookkeeping; wall-clock durations replaced by event order"),
 "C06": dict(
   text="the filter predicates (FilterKey with symbolic keys <= 4 bytes and two symbolic prefixes <= 3 bytes, checkpoint keys, FilterDB, FilterSlot, FilterCommands in any letter case) against reference predicates, and their application in each data path against the same references: incremental (parseSourceCommand), full sync (syncRDBFile incl. slot list and Lua entries), restore mode (restoreRDBFile, and restoreCommand's replay of the trailing command stream against the same filter specification as incremental sync), rump (fetcher/doFetch/getSourceDbList)",
   note=NOTE_COMMON + "one entry/command stream per run as bounded in C03/C07/C16; main/sanitize.go is outside"),
 "C07": dict(
   text="syncRDBFile and restoreRDBFile with the loader replaced by a pre-filled closed channel of m <= 3 entries (symbolic db, key, one Lua script entry, one failing restore), 1..2 workers (3 thorough), per-worker connect failure, filters and target.db: under every distribution of entries over workers and interleaving within the bound each passing entry is restored exactly once on a connection whose selected database is the entry's (or target.db), filtered ones never, success only after the channel is drained, a failed restore or connect is reported",
   note=NOTE_COMMON + "RestoreRdbEntry is replaced by a recording stub here (its own behaviour is C02); preemption bound 1; time.After never fires"),
 "C09": dict(
   text="ring offset lemmas (roffset/woffset) for arbitrary 64-bit positions; one-step refinement of memBuffer/fileBuffer readSome/writeSome from an arbitrary valid symbolic state against a ghost stream; sequential close rules on the real pipe; protocol runs with a writer goroutine and the reader in the main goroutine where every interleaving at mutex/cond/channel granularity (preemption bound 2, thorough 3) is a branch of the search, with deadlock detection and an explicit hand-shake so that wake-up must come from progress, not from close; a writer blocked with k bytes pending must refill the ring after every shorter read, and a writer blocked on a full ring is released by the reader's close with the reader's error; zero-length reads never report the writer's close before the drain",
   note=NOTE_COMMON + "concrete ring sizes in the lemmas (a symbolic size is not decided within 60 s by any back end); step lemmas on an 8-byte ring; stream-length induction on paper; sync.Mutex/Cond/WaitGroup are engine primitives; schedule-dependent counterexamples are replayed by engine-concrete re-execution"),
 "C16": dict(
   text="dbRumperExecutor.exec with fetcher, writer, receiver and the statistics loop as goroutines against a model source (INFO keyspace, SELECT, pipelined DUMP/PTTL over 2 databases, 1..2 scan pages incl. an empty one, keys that vanished before DUMP, no-expiry and symbolic positive PTTL, symbolic payloads, big-key expansion through RestoreBigkey) and two model-target connections sharing a keyspace, batch sizes 1..2, key_exists none/rewrite, target.db, db and key filters, big and ordinary keys mixed in a non-zero database; the key-file scanner alone: every passing existing key arrives with payload/elements, ttl (none stays none) and database; vanished keys are skipped; the executor terminates (no deadlock)",
   note=NOTE_COMMON + "delay-bounded scheduling (default round-robin successor, <= 1 deviation quick / 2 thorough); the statistics ticker fires only at quiescence; the SCAN reply parser (reflection) is replaced by a harness scanner; target empty at start"),
 "C17": dict(
   text="restricted claim: CmdDecode.decode with its fan-out/fan-in goroutines and decoderMain run from SSA (parallel 1..2, delay-bounded schedules) on entries of every classic type and a ziplist-encoded hash with symbolic keys, values (non-printable and non-UTF-8 bytes included), score bits, several keys plus Lua scripts at every position, one run with a text above 1 MiB next to a small key on two workers, and one with a progress timer firing at a scheduler-chosen moment while the output write is a scheduling point: one record per element with database, type, expiry, list index, base64 fields equal to base64 of the exact bytes (real encoding/base64 code), score numerically equal, nothing omitted/duplicated/attributed to another key under every schedule explored, the run ends",
   note=NOTE_COMMON + "encoding/json.Marshal is a contract model (field order, unescaped strings, NaN/Inf => error): that the printed text is valid JSON is outside the claim; file I/O stubbed; one known finding (NaN/Inf score aborts the run)"),
 "C18": dict(
   text="offset lemmas (roffset/woffset) for arbitrary 64-bit positions; one-step refinement of the memory and file backed stores (readSomeAt from an arbitrary offset and write position: exact bytes or ErrInvalidOffset exactly when overwritten/future; writeSome; dataRange) against a ghost stream; sequential API behaviour (Reader, SeekTo/IsValid, wrap beyond capacity, close); protocol runs with one writer and up to two blocked readers under every interleaving (Broadcast wake-up, close wakes all with an error, no deadlock)",
   note=NOTE_COMMON + "concrete ring sizes in the lemmas; step lemmas on an 8-byte ring; induction over histories on paper; sync primitives are engine primitives; *os.File is a byte-store stub in the file flavour"),
 "C19": dict(
   text="information flow decided by the solver: source and target passwords are unconstrained symbolic strings; every log call reached (sync start incl. constructor, retry bookkeeping, topology discovery with every outcome, checkpoint load, failing PSYNC and restart; checkpoint loader; slot supervisor) is rendered with a model of fmt's %v/%+v/%s traversal, and for each rendered line, each GetExtraInfo value (restart counter 0..3) and the GetSafeOptions copy — both also as the JSON document encoding/json would produce (exported fields, pointers followed, String() not consulted) — and CmdSync.Main's start-up, the latency producer of a cluster source (client creation or commands failing), a server that echoes the auth command's arguments (through the real OpenNetConn/AuthPassword), the query 'exists a password value not contained in the text' must be satisfiable; unsat = the password flows into the output",
   note=NOTE_COMMON + "the fmt model (struct/pointer/slice/map traversal, Error/String methods) is engine code and trusted; main (does not type-check), the HTTP layer and third-party logging are outside; sendPSyncCmd and the metric registry are stubbed"),
 "C20": dict(
   text="getRedisNodeState on INFO text with symbolic filler against a reference role parser (regular expressions evaluated symbolically over the text), and GetSlotState/recursiveGetSlotState with an injected connection factory whose outcome per node and per retry round (connect error, command error, master, slave, no role, role not at line start) is a solver-visible choice: chosen source reported master in the deciding round, every other known node listed once as replica, erroring nodes never chosen, exactly maxRetries+1 rounds then an error when no master exists",
   note=NOTE_COMMON + "<= 3 nodes x <= 2 rounds quick (4 nodes / 3 rounds thorough); time.Sleep has no duration; the real network factory is outside"),
 "C10": dict(
   text="18 value-tree skeletons (depth <= 3, payloads <= 3 symbolic bytes, small symbolic integers, nil vs empty) encoded with the real encoder, embedded in a stream with keep-alive newlines and a following value, decoded with the real decoder over real bufio: equality, exact byte position and intact remainder asserted for all payload values; integers across the imap boundaries; inline commands; corruption families (CR, LF, non-numeric and negative lengths, unknown type in array, every truncation point) must yield an error; ParseArgs/ChangeArgsToResp round trip",
   note=NOTE_COMMON + "shapes are enumerated concretely, contents are symbolic; text lines exclude LF; integers restricted to the listed ranges and edge values"),
 "C11": dict(
   text="one-step lemmas over the real SSA of both in-repo CRC-64 implementations from an arbitrary 64-bit state (table step = bitwise Jones step; step injective in state and byte; chunking independence; Sum/Reset layout) plus the real payload checkers (utils.CheckVersionChecksum, cupcake verifyDump) on symbolic payloads whose trailer is built with the tool's own digest: accept intact, reject altered checksum byte, unsupported version, short input",
   note=NOTE_COMMON + "stream-length induction from the one-step lemmas is on paper; altered data bytes in a checked payload rest on step injectivity (three chained table steps time out in every back end); payload bodies <= 2 bytes"),
 "C14": dict(
   text="LoadCheckpoint/fetchCheckpoint/ClearCheckpoint and ParseKeyspace run from SSA against a model target whose databases hold checkpoint hashes in 7 layouts (own, own without run id, another source whose address extends ours, both, third source, foreign fields) with symbolic offsets, run ids and version fields and every map iteration order: returned (runid, offset, db) is the own entry with the greatest offset, others' fields untouched, stale own fields removed elsewhere, incompatible version refused, none => -1",
   note=NOTE_COMMON + "utils.OpenRedisConn is replaced by the model target (tiny Redis), whose fidelity is trusted; <= 2 databases quick / 3 thorough; offsets <= 2 digits; counterexamples are replayed by engine-concrete re-execution because of the stub"),
 "C15": dict(
   text="bounded symbolic execution of utils.KeyToSlot from its SSA: for every key length up to the bound all byte values are covered by solver-decided paths; the slot is compared with the cluster-spec tag rule",
   note=NOTE_COMMON + "bounded key length; CRC16 applied by the tool's own function on both sides"),
}
NA_REASON = {}
DEFAULT_NA = "check not built yet in this session (engine reaches the package; harness pending)"

props = [json.loads(l) for l in open('/verif/properties.jsonl')]
checks = []
na = []
for p in props:
    pid = p['id']
    if pid in CLAIMED:
        c = CLAIMED[pid]
        checks.append({
            "property_id": pid,
            "quick_cmd": f"./check {pid} --tier quick",
            "thorough_cmd": f"./check {pid} --tier thorough",
            "evidence_file": f"/verif/evidence/{pid}.json",
            "replay_cmd_template": f"./check {pid} --replay {{path}}",
            "engine": "gosym",
            "level_claimed": {"category": "model_checking", "text": c['text'], "design_ref": f"DESIGN.md §7 {pid}"},
            "level_note": c['note'],
            "technique": TECH,
        })
    else:
        na.append({"property_id": pid, "reason": NA_REASON.get(pid, DEFAULT_NA)})
m = {
 "version": 1,
 "setup_cmd": "cd /verif/engine && GOFLAGS=-mod=mod GOPROXY=off GOSUMDB=off GOTOOLCHAIN=local go build -o /verif/bin/vcheck ./cmd/vcheck",
 "hooks": {
  "guard": "verif",
  "enable": "no source hooks: harnesses and the de-duplicated common.go enter the build through go/packages and `go test -overlay` overlays computed from /repo's working tree at run time",
  "baseline_off_cmd": "cd /repo/src && GOFLAGS=-mod=mod GOPROXY=off go test -vet=off -count=1 ./pkg/libs/bytesize ./pkg/libs/io/backlog ./pkg/libs/io/pipe ./pkg/libs/stats ./pkg/rdb ./pkg/redis",
  "source_commits": [],
  "add_only": True,
 },
 "engines": [{"name": "gosym", "path": "/verif/engine", "serves_properties": sorted(CLAIMED), "kind_free_text": "bounded symbolic executor for go/ssa with SMT back end (z3 5.1 primary; z3 4.8.12 cross-check)"}],
 "checks": checks,
 "not_applicable": na,
 "notes": "All checks rebuild their encoding from /repo's working tree on every run (go/packages + go/ssa). Exit 2 = INCONCLUSIVE (never a pass).",
}
json.dump(m, open('/verif/MANIFEST.json', 'w'), indent=1)
print("claimed:", sorted(CLAIMED), "na:", len(na))
