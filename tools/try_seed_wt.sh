#!/bin/sh
# tools/try_seed_wt.sh <Cnn> <worktree> [more checks]: run check(s) against a scratch worktree that already has the
# seeded change applied (does not touch /repo; evidence goes to /tmp).
P=$1; WT=$2; shift 2
echo "--- baseline"
(cd $WT/src && GOFLAGS=-mod=mod GOPROXY=off GOSUMDB=off GOTOOLCHAIN=local go test -vet=off -count=1 ./pkg/libs/bytesize ./pkg/libs/io/backlog ./pkg/libs/io/pipe ./pkg/libs/stats ./pkg/rdb ./pkg/redis 2>&1 | grep -v "^ok" | tail -5)
for c in $P "$@"; do
  echo "--- check $c"
  (cd /verif && VF_REPO_SRC=$WT/src VF_EVIDENCE_DIR=/tmp/vf-ev timeout --foreground 1500 ./bin/vcheck check $c 2>&1 | grep -E "^VIOLATION|^KNOWN|^INCONCLUSIVE|=> exit" | cut -c1-240 | sort | uniq -c | head -8)
done
