#!/bin/sh
# runs every check's thorough tier and prints one summary line per property
cd /verif || exit 2
for c in C01 C02 C03 C04 C05 C06 C07 C08 C09 C10 C11 C12 C13 C14 C15 C16 C17 C18 C19 C20; do
  s=$(date +%s)
  out=$(timeout 5400 ./check $c --tier thorough 2>&1)
  rc=$?
  e=$(date +%s)
  echo "$c rc=$rc $((e-s))s :: $(echo "$out" | grep -E "=> exit" | cut -c1-220)"
  echo "$out" | grep -E "^INCONCLUSIVE|^VIOLATION" | cut -c1-220 | sort | uniq -c | head -6
done
