#!/bin/sh
# tools/try_seed.sh <Cnn> <patch.diff> [more check ids...]: apply a seeded change to /repo, run baseline + check(s), always revert.
P=$1; PATCH=$2; shift 2
cd /repo || exit 2
git apply --check "$PATCH" || { echo "patch does not apply"; exit 2; }
git apply "$PATCH"
echo "--- baseline"
(cd src && GOFLAGS=-mod=mod GOPROXY=off GOSUMDB=off GOTOOLCHAIN=local go test -vet=off -count=1 ./pkg/libs/bytesize ./pkg/libs/io/backlog ./pkg/libs/io/pipe ./pkg/libs/stats ./pkg/rdb ./pkg/redis 2>&1 | tail -7)
for c in $P "$@"; do
  echo "--- check $c"
  (cd /verif && timeout 1500 ./check $c 2>&1 | grep -E "^VIOLATION|^KNOWN|^INCONCLUSIVE|=> exit" | cut -c1-260 | sort | uniq -c | head -12)
done
git checkout -- . ; git status --short | grep -v "tools/redis" | head
