package vfapi

// Verification API. In the symbolic engine every function here is intercepted
// by name before it is entered; the bodies below are the native-replay
// implementation: values come from the solver model in $VF_MODEL.

import (
	"time"
	"runtime"
	"encoding/json"
	"fmt"
	"os"
	"regexp"
)

type vfModelFile struct {
	Harness string            `json:"harness"`
	Model   map[string]uint64 `json:"model"`
	Params  map[string]int64  `json:"params"`
}

var (
	vfModel    *vfModelFile
	vfCounts   = map[string]int{}
	vfFailures []string
	vfAborted  string
	vfObserved = map[string]string{}
	vfSan      = regexp.MustCompile(`[^A-Za-z0-9_.]`)
)

func vfLoad() {
	if vfModel != nil {
		return
	}
	vfModel = &vfModelFile{Model: map[string]uint64{}, Params: map[string]int64{}}
	if p := os.Getenv("VF_MODEL"); p != "" {
		b, err := os.ReadFile(p)
		if err != nil {
			panic(err)
		}
		if err := json.Unmarshal(b, vfModel); err != nil {
			panic(err)
		}
	}
}

func vfReset() {
	vfCounts = map[string]int{}
	vfFailures = nil
	vfAborted = ""
	vfObserved = map[string]string{}
}

func vfVal(tag string) uint64 {
	vfLoad()
	tag = vfSan.ReplaceAllString(tag, "_")
	k := vfCounts[tag]
	vfCounts[tag] = k + 1
	name := "v_" + tag
	if k > 0 {
		name = fmt.Sprintf("v_%s_%d", tag, k)
	}
	return vfModel.Model[name]
}

type vfAssumeFailed struct{}

func vfByte(tag string) byte     { return byte(vfVal(tag)) }
func vfUint16(tag string) uint16 { return uint16(vfVal(tag)) }
func vfUint32(tag string) uint32 { return uint32(vfVal(tag)) }
func vfInt32(tag string) int32   { return int32(vfVal(tag)) }
func vfInt64(tag string) int64   { return int64(vfVal(tag)) }
func vfUint64(tag string) uint64 { return vfVal(tag) }
func vfInt(tag string) int       { return int(vfVal(tag)) }
func vfBool(tag string) bool     { return vfVal(tag) == 1 }
func vfBytes(tag string, n int) []byte {
	b := make([]byte, n)
	for i := range b {
		b[i] = byte(vfVal(fmt.Sprintf("%s.%d", tag, i)))
	}
	return b
}
func vfStr(tag string, n int) string  { return string(vfBytes(tag, n)) }
func vfChoice(tag string, n int) int  { return int(vfVal(tag)) }
func vfPick(tag string, n int) int    { return int(vfVal(tag)) }
func vfConc(x int) int                { return x }
func vfConcByte(x byte) byte          { return x }
func vfAssume(c bool) {
	if !c {
		panic(vfAssumeFailed{})
	}
}
func vfAssert(c bool, msg string) {
	if !c {
		vfFailures = append(vfFailures, msg)
	}
}
func vfAssertK(c bool, msg string, id string, guard bool) {
	if !c {
		vfFailures = append(vfFailures, msg)
	}
}
func vfAssertTwin(c bool, msg string) {}
func vfAnd(a, b bool) bool         { return a && b }
func vfOr(a, b bool) bool          { return a || b }
func vfNot(a bool) bool            { return !a }
func vfImplies(a, b bool) bool     { return !a || b }
func vfIteInt(c bool, a, b int) int {
	if c {
		return a
	}
	return b
}
func vfIteByte(c bool, a, b byte) byte {
	if c {
		return a
	}
	return b
}
func vfIteU64(c bool, a, b uint64) uint64 {
	if c {
		return a
	}
	return b
}
func vfEqBytes(a, b []byte) bool { return string(a) == string(b) }
func vfEqStr(a, b string) bool   { return a == b }
func vfHasPrefix(s, p string) bool {
	return len(s) >= len(p) && s[:len(p)] == p
}
func vfObserve(tag string, vals ...interface{}) {
	s := ""
	for i, v := range vals {
		if i > 0 {
			s += " "
		}
		switch x := v.(type) {
		case []byte:
			for j, c := range x {
				if j > 0 {
					s += " "
				}
				s += fmt.Sprintf("%02x", c)
			}
		case string:
			for j := 0; j < len(x); j++ {
				if j > 0 {
					s += " "
				}
				s += fmt.Sprintf("%02x", x[j])
			}
		case byte:
			s += fmt.Sprintf("%02x", x)
		case bool:
			if x {
				s += "1"
			} else {
				s += "0"
			}
		default:
			s += fmt.Sprintf("%d", x)
		}
	}
	k := tag
	for n := 1; ; n++ {
		if _, dup := vfObserved[k]; !dup {
			break
		}
		k = fmt.Sprintf("%s#%d", tag, n)
	}
	vfObserved[k] = s
}
func vfYield()                           {}
func vfExpectAbort()                     {}
func vfNoExpectAbort()                   {}
func vfAllowAbort(id string, cond bool)  {}
func vfClearAllowAbort()                 {}
func vfMapOrder(n int)                   {}
func vfFail(msg string)                  { vfFailures = append(vfFailures, "vfFail: "+msg); panic(vfAssumeFailed{}) }
func vfParam(name string, def int) int {
	vfLoad()
	if v, ok := vfModel.Params[name]; ok {
		return int(v)
	}
	return def
}
func vfStub(name string, f interface{}) {
	if h, ok := vfHooks[name]; ok {
		h(f)
	}
}
func vfUnstub(name string) {
	if h, ok := vfHooks[name]; ok {
		h(nil)
	}
}
func vfPark()                            { select {} }
func vfSymbolic() bool                   { return false }
func vfSecret(name string, s string)     {}
func vfCheckNoSecret(where string, s string) {}
func vfLogCount() int                    { return 0 }
func vfSprint(args ...interface{}) string { return fmt.Sprint(args...) }

// vfJSON is the document encoding/json produces for v (engine: structural model of json's traversal,
// exported fields, pointers followed, String() not consulted, strings unescaped).
func vfJSON(v interface{}) string {
	b, err := json.Marshal(v)
	if err != nil {
		return "json error: " + err.Error()
	}
	return string(b)
}

// vfHooks is filled by generated hook files (native replay of replaced callees).
var vfHooks = map[string]func(f interface{}){}


// vfIsConcrete reports whether every byte is a concrete value (always true natively).
func vfIsConcrete(b []byte) bool { return true }

func vfGosched() { runtime.Gosched() }

// vfWaitFor blocks until cond holds (engine: a blocked goroutine whose readiness is the condition).
func vfWaitFor(cond func() bool) {
	for !cond() {
		vfGosched()
	}
}

// vfIdle blocks until no other goroutine can run (engine); natively a short sleep.
func vfIdle() { time.Sleep(2 * time.Millisecond) }

// vfConcBool forks on a symbolic boolean and returns it as a concrete one.
func vfConcBool(b bool) bool { return b }
