package spec

// Command-stream scripts (templates), filter configurations and the filter specification shared by the
// incremental-sync harness (dbSync) and the restore-mode command replay harness (run).

import (
	"strconv"
	"strings"

	conf "github.com/alibaba/RedisShake/redis-shake/configure"
)

type vfSrcCmd struct {
	argv [][]byte // argv[0] = name as sent by the master
}

// vfTemplate builds the i-th command of the script from a template index
func vfTemplate(t int) vfSrcCmd {
	b := func(s string) []byte { return []byte(s) }
	switch t {
	case 0:
		return vfSrcCmd{[][]byte{b("select"), b(strconv.Itoa(vfPick("db", 3)))}}
	case 1:
		return vfSrcCmd{[][]byte{b("SELECT"), b(strconv.Itoa(vfPick("db", 3)))}}
	case 2:
		return vfSrcCmd{[][]byte{b("set"), vfBytes("key", 2), vfBytes("val", 1)}}
	case 3:
		return vfSrcCmd{[][]byte{b("mset"), vfBytes("key", 1), vfBytes("val", 1), vfBytes("key", 1), vfBytes("val", 1)}}
	case 4:
		return vfSrcCmd{[][]byte{b("DEL"), vfBytes("key", 1), vfBytes("key", 1)}}
	case 5:
		return vfSrcCmd{[][]byte{b("ping")}}
	case 6:
		return vfSrcCmd{[][]byte{b("multi")}}
	case 7:
		return vfSrcCmd{[][]byte{b("exec")}}
	case 8:
		return vfSrcCmd{[][]byte{b("publish"), b("__sentinel__:hello"), vfBytes("val", 1)}}
	case 9:
		return vfSrcCmd{[][]byte{b("publish"), vfBytes("chan", 1), vfBytes("val", 1)}}
	case 10:
		return vfSrcCmd{[][]byte{b("EVAL"), vfBytes("val", 2), b("0")}}
	case 11:
		return vfSrcCmd{[][]byte{b("script"), b("load"), vfBytes("val", 1)}}
	case 12:
		return vfSrcCmd{[][]byte{b("opinfo"), vfBytes("val", 1)}}
	}
	return vfSrcCmd{[][]byte{b("incrby"), vfBytes("key", 1), b("5")}}
}

const vfNTemplates = 14

type vfCfg struct {
	dbWhite, dbBlack   []string
	keyWhite, keyBlack []string
	filterLua          bool
	targetDB, startDb  int
}

func vfConfig(cfg int) vfCfg {
	c := vfCfg{targetDB: -1}
	switch cfg {
	case 1:
		c.dbBlack = []string{"1"}
	case 2:
		c.dbWhite = []string{"1", "2"}
	case 3:
		c.keyBlack = []string{vfStr("prefix", 1)}
		c.startDb = 3
	case 4:
		c.keyWhite = []string{vfStr("prefix", 1)}
		c.filterLua = true
	case 5:
		c.targetDB = 2
	case 6:
		c.targetDB = 1
		c.dbBlack = []string{"2"}
		c.filterLua = true
	case 7:
		c.targetDB = 0
		c.startDb = 0
	case 8: // the fixed target database is itself a filtered source database
		c.targetDB = 2
		c.dbBlack = []string{"2"}
	case 9:
		c.targetDB = 0
		c.dbWhite = []string{"1"}
	}
	conf.Options.FilterDBWhitelist = c.dbWhite
	conf.Options.FilterDBBlacklist = c.dbBlack
	conf.Options.FilterKeyWhitelist = c.keyWhite
	conf.Options.FilterKeyBlacklist = c.keyBlack
	conf.Options.FilterLua = c.filterLua
	conf.Options.FilterSlot = nil
	conf.Options.TargetDB = c.targetDB
	conf.Options.Metric = false
	return c
}

// ---- specification of the filters (from the property statements)
func vfDbFiltered(c vfCfg, db int) bool {
	s := strconv.Itoa(db)
	if len(c.dbBlack) != 0 {
		for _, x := range c.dbBlack {
			if x == s {
				return true
			}
		}
		return false
	}
	if len(c.dbWhite) != 0 {
		for _, x := range c.dbWhite {
			if x == s {
				return false
			}
		}
		return true
	}
	return false
}

func vfKeyPasses(c vfCfg, key []byte) bool {
	if vfHasPrefix(string(key), "redis-shake-checkpoint") {
		return false
	}
	if len(c.keyBlack) != 0 {
		return vfNot(vfHasPrefix(string(key), c.keyBlack[0]))
	}
	if len(c.keyWhite) != 0 {
		return vfHasPrefix(string(key), c.keyWhite[0])
	}
	return true
}

// key positions (argv without the name) of the templates that are key-addressed
func vfKeySpec(name string) (first, last, step int, ok bool) {
	switch name {
	case "set", "incrby":
		return 0, 0, 1, true
	case "mset":
		return 0, -1, 2, true
	case "del":
		return 0, -1, 1, true
	}
	return 0, 0, 0, false
}

type vfExpect struct {
	db   int
	name string
	args [][]byte
	off  int64
}

type readerThenPark struct {
	data []byte
	pos  int
	done chan int
}

func (r *readerThenPark) Read(p []byte) (int, error) {
	if r.pos >= len(r.data) {
		r.done <- 1
		vfPark()
	}
	n := copy(p, r.data[r.pos:])
	r.pos += n
	return n, nil
}

// vfWantOf is the specification: which commands of the script survive the filters, with which
// argv, in which database (offsets: start + end position of the command in the stream)
func vfWantOf(cfg vfCfg, script []vfSrcCmd, ends []int64, start int64) []vfExpect {
	var want []vfExpect
	cur := 0
	if cfg.startDb != 0 {
		cur = cfg.startDb
	}
	bypass := false
	for i, c := range script {
		name := strings.ToLower(string(c.argv[0]))
		args := c.argv[1:]
		if name == "select" {
			n, _ := strconv.Atoi(string(args[0]))
			cur = n
			bypass = vfDbFiltered(cfg, n)
			continue
		}
		if name == "ping" || (name == "publish" && strings.EqualFold(string(args[0]), "__sentinel__:hello")) {
			continue // don't-care
		}
		if name == "multi" || name == "exec" {
			continue // markers are never applied (checked on the sender side); here: may be forwarded as markers
		}
		if bypass || name == "opinfo" {
			continue
		}
		if cfg.filterLua && (name == "eval" || name == "evalsha" || name == "script") {
			continue
		}
		outArgs := args
		if first, last, step, ok := vfKeySpec(name); ok && (len(cfg.keyBlack) != 0 || len(cfg.keyWhite) != 0) {
			hi := last
			if last < 0 {
				hi = len(args) + last
				if step == 2 {
					hi = len(args) - 2
				}
			}
			var kept [][]byte
			kept = append(kept, args[:first]...)
			n := 0
			for p := first; p <= hi; p += step {
				if vfKeyPasses(cfg, args[p]) {
					kept = append(kept, args[p:p+step]...)
					n++
				}
			}
			kept = append(kept, args[hi+step:]...)
			if n == 0 {
				continue
			}
			outArgs = kept
		}
		db := cur
		if cfg.targetDB != -1 {
			db = cfg.targetDB
		}
		want = append(want, vfExpect{db: db, name: name, args: outArgs, off: start + ends[i]})
	}

	return want
}
