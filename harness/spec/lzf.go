package spec

// vfLZFSpec is liblzf's lzf_decompress as a specification with explicit
// well-formedness: ok is false when the compressed form reads past its end, a
// back reference points before the output, the output would pass outlen, or
// the total is not outlen (liblzf: E2BIG / EINVAL). For a well-formed form it
// returns the decompressed bytes.
func vfLZFSpec(in []byte, outlen int) ([]byte, bool) {
	out := make([]byte, 0, outlen)
	i := 0
	for i < len(in) {
		ctrl := int(in[i])
		i++
		if ctrl < 32 {
			n := ctrl + 1
			if i+n > len(in) || len(out)+n > outlen {
				return nil, false
			}
			out = append(out, in[i:i+n]...)
			i += n
		} else {
			n := ctrl >> 5
			if n == 7 {
				if i >= len(in) {
					return nil, false
				}
				n += int(in[i])
				i++
			}
			if i >= len(in) {
				return nil, false
			}
			ref := len(out) - ((ctrl & 0x1f) << 8) - int(in[i]) - 1
			i++
			if ref < 0 {
				return nil, false
			}
			n += 2
			if len(out)+n > outlen {
				return nil, false
			}
			for x := 0; x < n; x++ {
				out = append(out, out[ref+x])
			}
		}
	}
	if len(out) != outlen {
		return nil, false
	}
	return out, true
}
