package spec

// Model target ("tiny Redis"): a redigo.Conn that records the command trace and
// keeps a small keyspace for the commands the tool sends. It is a model: its
// fidelity to a real server is part of the trusted base.

import (
	"errors"
	"strconv"
	"strings"
)

type vfPair struct{ f, v []byte }

type vfKey struct {
	name    []byte
	kind    string // string list set zset hash blob(restored payload)
	str     []byte
	elems   [][]byte // list / set members
	pairs   []vfPair // hash field/value, zset member/score
	ttl     int64    // ms, 0 = none
	hasTTL  bool
	payload []byte
	idle    int64
	freq    int64
	hasIdle bool
	hasFreq bool
}

type vfCmd struct {
	name string
	args [][]byte      // rendered arguments (nil entries are rendered lazily from raw)
	raw  []interface{} // arguments as passed by the tool
	db   int
}

// num returns argument i as a number without rendering it to text.
func (c *vfCmd) num(i int) (int64, bool) {
	if i < len(c.raw) {
		switch x := c.raw[i].(type) {
		case int:
			return int64(x), true
		case int64:
			return x, true
		case int32:
			return int64(x), true
		case uint32:
			return int64(x), true
		case uint64:
			return int64(x), true
		case uint8:
			return int64(x), true
		}
	}
	return vfAtoi(c.args[i])
}

type vfRedis struct {
	dbs      map[int][]*vfKey
	cur      int
	trace    []vfCmd
	pend     []vfReply
	inMulti  bool
	queued   []vfCmd
	noReplace   bool // target does not know RESTORE ... REPLACE (answers syntax error)
	rejectBlob  func(payload []byte) bool
	failSend    int // fail the n-th Send/Do (1-based), 0 = never
	nsend       int
	closed      bool
	scripts     [][]byte
	applied     []vfCmd // data commands applied (after MULTI/EXEC resolution)
	flushAt     []int   // trace length at every Flush
	nflush      int
	failFlush   int
}

type vfReply struct {
	v   interface{}
	err error
}

func vfNewRedis() *vfRedis { return &vfRedis{dbs: map[int][]*vfKey{}} }

func vfArg(a interface{}) []byte {
	switch x := a.(type) {
	case []byte:
		return x
	case string:
		return []byte(x)
	case int:
		return []byte(strconv.FormatInt(int64(x), 10))
	case int64:
		return []byte(strconv.FormatInt(x, 10))
	case int32:
		return []byte(strconv.FormatInt(int64(x), 10))
	case uint32:
		return []byte(strconv.FormatUint(uint64(x), 10))
	case uint64:
		return []byte(strconv.FormatUint(x, 10))
	case uint8:
		return []byte(strconv.FormatUint(uint64(x), 10))
	case bool:
		if x {
			return []byte("1")
		}
		return []byte("0")
	case nil:
		return []byte("")
	}
	vfFail("model target: unsupported argument type")
	return nil
}

func (r *vfRedis) find(db int, name []byte) (int, *vfKey) {
	for i, k := range r.dbs[db] {
		if len(k.name) == len(name) && string(k.name) == string(name) {
			return i, k
		}
	}
	return -1, nil
}

func (r *vfRedis) del(db int, name []byte) bool {
	i, _ := r.find(db, name)
	if i < 0 {
		return false
	}
	ks := r.dbs[db]
	r.dbs[db] = append(append([]*vfKey{}, ks[:i]...), ks[i+1:]...)
	return true
}

func (r *vfRedis) get(db int, name []byte, kind string) (*vfKey, error) {
	_, k := r.find(db, name)
	if k == nil {
		k = &vfKey{name: append([]byte{}, name...), kind: kind}
		r.dbs[db] = append(r.dbs[db], k)
		return k, nil
	}
	if k.kind != kind {
		return nil, errors.New("WRONGTYPE Operation against a key holding the wrong kind of value")
	}
	return k, nil
}

func vfAtoi(b []byte) (int64, bool) {
	n, err := strconv.ParseInt(string(b), 10, 64)
	return n, err == nil
}

// apply executes one command against the keyspace and returns its reply.
func (r *vfRedis) apply(c vfCmd) (interface{}, error) {
	a := c.args
	for i := range a {
		if a[i] == nil && i < len(c.raw) && c.name != "restore" && c.name != "pexpire" && c.name != "select" {
			a[i] = vfArg(c.raw[i])
		}
	}
	switch c.name {
	case "ping":
		return "PONG", nil
	case "select":
		n, ok := c.num(0)
		if !ok || n < 0 {
			return nil, errors.New("ERR invalid DB index")
		}
		r.cur = int(n)
		return "OK", nil
	case "exists":
		if _, k := r.find(r.cur, a[0]); k != nil {
			return int64(1), nil
		}
		return int64(0), nil
	case "del":
		n := int64(0)
		for _, k := range a {
			if r.del(r.cur, k) {
				n++
			}
		}
		return n, nil
	case "restore":
		// RESTORE key ttl payload [REPLACE] [IDLETIME n] [FREQ n]
		replace := false
		var idle, freq int64
		hasIdle, hasFreq := false, false
		for i := 3; i < len(a); i++ {
			if a[i] == nil {
				return nil, errors.New("ERR syntax error")
			}
			switch strings.ToLower(string(a[i])) {
			case "replace":
				replace = true
			case "idletime":
				i++
				idle, _ = c.num(i)
				hasIdle = true
			case "freq":
				i++
				freq, _ = c.num(i)
				hasFreq = true
			default:
				return nil, errors.New("ERR syntax error")
			}
		}
		if replace && r.noReplace {
			return nil, errors.New("ERR wrong number of arguments for 'restore' command")
		}
		if r.rejectBlob != nil && r.rejectBlob(a[2]) {
			return nil, errors.New("ERR Bad data format")
		}
		if _, k := r.find(r.cur, a[0]); k != nil {
			if !replace {
				return nil, errors.New("BUSYKEY Target key name already exists.")
			}
			r.del(r.cur, a[0])
		}
		ttl, ok := c.num(1)
		if !ok || ttl < 0 {
			return nil, errors.New("ERR Invalid TTL value, must be >= 0")
		}
		k, _ := r.get(r.cur, a[0], "blob")
		k.payload = append([]byte{}, a[2]...)
		k.ttl, k.hasTTL = ttl, ttl != 0
		k.idle, k.hasIdle, k.freq, k.hasFreq = idle, hasIdle, freq, hasFreq
		return "OK", nil
	case "set":
		r.del(r.cur, a[0])
		k, _ := r.get(r.cur, a[0], "string")
		k.str = append([]byte{}, a[1]...)
		return "OK", nil
	case "rpush":
		k, err := r.get(r.cur, a[0], "list")
		if err != nil {
			return nil, err
		}
		for _, e := range a[1:] {
			k.elems = append(k.elems, append([]byte{}, e...))
		}
		return int64(len(k.elems)), nil
	case "sadd":
		k, err := r.get(r.cur, a[0], "set")
		if err != nil {
			return nil, err
		}
		added := int64(0)
		for _, e := range a[1:] {
			dup := false
			for _, x := range k.elems {
				if len(x) == len(e) && string(x) == string(e) {
					dup = true
				}
			}
			if !dup {
				k.elems = append(k.elems, append([]byte{}, e...))
				added++
			}
		}
		return added, nil
	case "zadd", "hset", "hmset":
		kind := "hash"
		if c.name == "zadd" {
			kind = "zset"
		}
		k, err := r.get(r.cur, a[0], kind)
		if err != nil {
			return nil, err
		}
		added := int64(0)
		for i := 1; i+1 < len(a); i += 2 {
			f, v := a[i], a[i+1]
			if kind == "zset" {
				f, v = a[i+1], a[i] // ZADD key score member
			}
			found := false
			for j := range k.pairs {
				if len(k.pairs[j].f) == len(f) && string(k.pairs[j].f) == string(f) {
					k.pairs[j].v = append([]byte{}, v...)
					found = true
				}
			}
			if !found {
				k.pairs = append(k.pairs, vfPair{append([]byte{}, f...), append([]byte{}, v...)})
				added++
			}
		}
		return added, nil
	case "hdel":
		_, k := r.find(r.cur, a[0])
		if k == nil || k.kind != "hash" {
			return int64(0), nil
		}
		n := int64(0)
		for _, f := range a[1:] {
			var keep []vfPair
			for _, p := range k.pairs {
				if len(p.f) == len(f) && string(p.f) == string(f) {
					n++
				} else {
					keep = append(keep, p)
				}
			}
			k.pairs = keep
		}
		if len(k.pairs) == 0 {
			r.del(r.cur, a[0])
		}
		return n, nil
	case "hgetall":
		_, k := r.find(r.cur, a[0])
		out := []interface{}{}
		if k != nil {
			for _, p := range k.pairs {
				out = append(out, p.f, p.v)
			}
		}
		return out, nil
	case "hkeys", "hvals":
		_, k := r.find(r.cur, a[0])
		out := []interface{}{}
		if k != nil && k.kind == "hash" {
			for _, p := range k.pairs {
				if c.name == "hkeys" {
					out = append(out, p.f)
				} else {
					out = append(out, p.v)
				}
			}
		}
		return out, nil
	case "hlen":
		_, k := r.find(r.cur, a[0])
		if k == nil || k.kind != "hash" {
			return int64(0), nil
		}
		return int64(len(k.pairs)), nil
	case "hget", "hexists":
		_, k := r.find(r.cur, a[0])
		if k != nil && k.kind == "hash" {
			for _, p := range k.pairs {
				if len(p.f) == len(a[1]) && string(p.f) == string(a[1]) {
					if c.name == "hexists" {
						return int64(1), nil
					}
					return p.v, nil
				}
			}
		}
		if c.name == "hexists" {
			return int64(0), nil
		}
		return nil, nil
	case "pexpire", "expire":
		_, k := r.find(r.cur, a[0])
		if k == nil {
			return int64(0), nil
		}
		n, _ := c.num(1)
		if c.name == "expire" {
			n *= 1000
		}
		k.ttl, k.hasTTL = n, true
		return int64(1), nil
	case "script":
		r.scripts = append(r.scripts, append([]byte{}, a[len(a)-1]...))
		return "sha", nil
	case "info":
		var sb strings.Builder
		sb.WriteString("# Keyspace\r\n")
		max := -1
		for db := range r.dbs {
			if db > max {
				max = db
			}
		}
		for db := 0; db <= max; db++ {
			if n := len(r.dbs[db]); n > 0 {
				sb.WriteString("db" + strconv.Itoa(db) + ":keys=" + strconv.Itoa(n) + ",expires=0,avg_ttl=0\r\n")
			}
		}
		return []byte(sb.String()), nil
	}
	// any other command: accepted, no modelled effect
	return "OK", nil
}

func (r *vfRedis) exec1(c vfCmd) vfReply {
	c.db = r.cur
	if c.name == "multi" {
		r.inMulti = true
		r.queued = nil
		return vfReply{"OK", nil}
	}
	if c.name == "exec" {
		if !r.inMulti {
			return vfReply{nil, errors.New("ERR EXEC without MULTI")}
		}
		r.inMulti = false
		var out []interface{}
		for _, q := range r.queued {
			q.db = r.cur
			v, err := r.apply(q)
			r.applied = append(r.applied, q)
			if err != nil {
				out = append(out, err)
			} else {
				out = append(out, v)
			}
		}
		r.queued = nil
		return vfReply{out, nil}
	}
	if r.inMulti {
		r.queued = append(r.queued, c)
		return vfReply{"QUEUED", nil}
	}
	v, err := r.apply(c)
	c.db = r.cur
	if c.name != "select" {
		c.db = r.cur
	}
	r.applied = append(r.applied, c)
	return vfReply{v, err}
}

func (r *vfRedis) Send(cmd string, args ...interface{}) error {
	r.nsend++
	if r.failSend != 0 && r.nsend == r.failSend {
		return errors.New("vf: connection lost")
	}
	c := vfCmd{name: strings.ToLower(cmd), raw: args}
	for _, a := range args {
		switch a.(type) {
		case int, int64, int32, uint32, uint64, uint8:
			// numbers are kept numeric (rendered only if a command needs the text)
			c.args = append(c.args, nil)
		default:
			c.args = append(c.args, vfArg(a))
		}
	}
	c.db = r.cur
	r.trace = append(r.trace, c)
	r.pend = append(r.pend, r.exec1(c))
	return nil
}

func (r *vfRedis) Flush() error {
	r.nflush++
	if r.failFlush != 0 && r.nflush == r.failFlush {
		return errors.New("vf: connection lost at flush")
	}
	r.flushAt = append(r.flushAt, len(r.trace))
	return nil
}

func (r *vfRedis) Receive() (interface{}, error) {
	if len(r.pend) == 0 {
		vfFail("model target: Receive without a pending reply (the tool would block forever)")
		return nil, errors.New("no pending reply")
	}
	p := r.pend[0]
	r.pend = r.pend[1:]
	return p.v, p.err
}

func (r *vfRedis) Do(cmd string, args ...interface{}) (interface{}, error) {
	if cmd != "" {
		if err := r.Send(cmd, args...); err != nil {
			return nil, err
		}
	}
	var last vfReply
	for len(r.pend) > 0 {
		last = r.pend[0]
		r.pend = r.pend[1:]
	}
	return last.v, last.err
}

func (r *vfRedis) Close() error { r.closed = true; return nil }
func (r *vfRedis) Err() error   { return nil }
