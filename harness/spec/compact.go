package spec

// Reference writers for Redis' compact encodings (ziplist, intset, zipmap),
// after ziplist.c / intset.c / zipmap.c. Used on the specification side only.

import "strconv"

// vfZLEntry is one ziplist entry: a string (enc 0 = 6 bit, 1 = 14 bit, 2 = 32 bit
// length header) or an integer (enc 0 = int4 (0..12), 1 = int8, 2 = int16,
// 3 = int24, 4 = int32, 5 = int64).
type vfZLEntry struct {
	str   []byte
	isInt bool
	ival  int64
	enc   int
}

func vfZLStr(s []byte, enc int) vfZLEntry   { return vfZLEntry{str: s, enc: enc} }
func vfZLInt(v int64, enc int) vfZLEntry    { return vfZLEntry{isInt: true, ival: v, enc: enc} }

// vfZLLogical is the element Redis materialises from the entry.
func (e vfZLEntry) logical() []byte {
	if e.isInt {
		return []byte(strconv.FormatInt(e.ival, 10))
	}
	return e.str
}

func vfZLEncode(e vfZLEntry) []byte {
	var b []byte
	if !e.isInt {
		n := len(e.str)
		switch e.enc {
		case 0:
			b = append(b, byte(n))
		case 1:
			b = append(b, 0x40|byte(n>>8), byte(n))
		default:
			b = append(b, 0x80, byte(n>>24), byte(n>>16), byte(n>>8), byte(n))
		}
		return append(b, e.str...)
	}
	v := e.ival
	switch e.enc {
	case 0:
		b = append(b, 0xf1+byte(v))
	case 1:
		b = append(b, 0xfe, byte(v))
	case 2:
		b = append(b, 0xc0, byte(v), byte(v>>8))
	case 3:
		b = append(b, 0xf0, byte(v), byte(v>>8), byte(v>>16))
	case 4:
		b = append(b, 0xd0, byte(v), byte(v>>8), byte(v>>16), byte(v>>24))
	default:
		b = append(b, 0xe0, byte(v), byte(v>>8), byte(v>>16), byte(v>>24), byte(v>>32), byte(v>>40), byte(v>>48), byte(v>>56))
	}
	return b
}

func vfLE32(v uint32) []byte { return []byte{byte(v), byte(v >> 8), byte(v >> 16), byte(v >> 24)} }

// vfZiplist serialises the entries: <zlbytes><zltail><zllen> entries <0xff>.
func vfZiplist(entries []vfZLEntry) []byte {
	var body []byte
	prev := 0
	tail := 10
	for i, e := range entries {
		enc := vfZLEncode(e)
		var ent []byte
		if prev < 254 {
			ent = append(ent, byte(prev))
		} else {
			ent = append(ent, 0xfe)
			ent = append(ent, vfLE32(uint32(prev))...)
		}
		ent = append(ent, enc...)
		if i == len(entries)-1 {
			tail = 10 + len(body)
		}
		body = append(body, ent...)
		prev = len(ent)
	}
	total := 10 + len(body) + 1
	out := append([]byte{}, vfLE32(uint32(total))...)
	out = append(out, vfLE32(uint32(tail))...)
	out = append(out, byte(len(entries)), byte(len(entries)>>8))
	out = append(out, body...)
	return append(out, 0xff)
}

// vfIntset serialises integers with the given element width (2, 4 or 8 bytes).
func vfIntset(vals []int64, width int) []byte {
	out := append([]byte{}, vfLE32(uint32(width))...)
	out = append(out, vfLE32(uint32(len(vals)))...)
	for _, v := range vals {
		for i := 0; i < width; i++ {
			out = append(out, byte(v>>(8*uint(i))))
		}
	}
	return out
}

// vfZipmap serialises field/value pairs (lengths below 253; free bytes after each value).
func vfZipmap(pairs [][2][]byte, free int, lenByte byte) []byte {
	out := []byte{lenByte}
	for _, p := range pairs {
		out = append(out, byte(len(p[0])))
		out = append(out, p[0]...)
		out = append(out, byte(len(p[1])), byte(free))
		out = append(out, p[1]...)
		for i := 0; i < free; i++ {
			out = append(out, 0)
		}
	}
	return append(out, 0xff)
}

// vfRdbLen is the RDB length prefix in its canonical form for small values.
func vfRdbLen(n int) []byte {
	if n < 64 {
		return []byte{byte(n)}
	}
	if n < 16384 {
		return []byte{0x40 | byte(n>>8), byte(n)}
	}
	return []byte{0x80, byte(n >> 24), byte(n >> 16), byte(n >> 8), byte(n)}
}

func vfRdbStr(s []byte) []byte { return append(vfRdbLen(len(s)), s...) }
