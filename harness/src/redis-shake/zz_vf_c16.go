package run

// C16 — scan-based migration (rump) copies every scanned key faithfully; also serves C06 (rump filter application).
//
//vf:job C16 quick VF_C16_Rump pages=1 batch=1..2 cfg=0..4
//vf:job C16 quickonly VF_C16_Rump pages=2 batch=2 cfg=0
//vf:job C16 quick VF_C16_Rump pages=1 batch=2 cfg=5
//vf:job C16 thorough VF_C16_Rump pages=2 batch=1..2 cfg=0..4 opt_preempt=1
//vf:job C06 quick VF_C16_Rump pages=1 batch=2 cfg=2..3
//vf:job C06 thorough VF_C16_Rump pages=1 batch=2 cfg=0..4
//vf:replayE C16 VF_C16_Rump
//vf:replayE C06 VF_C16_Rump
//vf:opt C16 preempt=1 thorough_preempt=2 delaybound=1 thorough_maxpaths=2000000
//vf:opt C06 delaybound=1 preempt=1
//vf:stub C16 source connection: model source answering INFO keyspace, SELECT, pipelined DUMP/PTTL from a keyspace chosen by the harness (payloads symbolic, keys may have vanished); scanner.NewScanner: harness scanner returning the pages of the selected database (the SCAN reply parsing uses reflection and is outside); utils.StartQoS: always-ready bucket; time.NewTicker: fed by the harness; target connections: two model-target connections sharing one keyspace
//vf:assume C16 source histories are monotone: a key absent at DUMP is absent at PTTL (a key present at DUMP may be gone at PTTL: it must be skipped); the target is empty at start
//vf:outside C16 Aliyun/Tencent scanners; QoS timing; statistics; pre-existing target keys; two pages with more than one deviation from round-robin scheduling (the thorough tier runs two pages with delay bound 1 and one page with delay bound 2)

import (
	"strconv"
	"time"

	conf "github.com/alibaba/RedisShake/redis-shake/configure"
	"github.com/alibaba/RedisShake/redis-shake/scanner"
	redigo "github.com/garyburd/redigo/redis"
)

type vfSrcKey struct {
	name string
	dump []byte // nil = vanished before DUMP
	pttl int64
	late bool // expired or deleted between the DUMP and the PTTL reply: PTTL answers -2
	big  bool
}

type vfSource struct {
	dbs   map[int][][]vfSrcKey // db -> pages
	cur   int
	pend  []interface{}
	page  int
	trace []string
}

func (s *vfSource) lookup(k string) *vfSrcKey {
	for _, pg := range s.dbs[s.cur] {
		for i := range pg {
			if pg[i].name == k {
				return &pg[i]
			}
		}
	}
	return nil
}

func (s *vfSource) Send(cmd string, args ...interface{}) error {
	switch cmd {
	case "DUMP":
		k := s.lookup(args[0].(string))
		if k == nil || k.dump == nil {
			s.pend = append(s.pend, nil)
		} else {
			s.pend = append(s.pend, k.dump)
		}
	case "PTTL":
		k := s.lookup(args[0].(string))
		if k == nil || k.dump == nil || k.late {
			s.pend = append(s.pend, int64(-2))
		} else {
			s.pend = append(s.pend, k.pttl)
		}
	default:
		vfFail("model source: unexpected pipelined command " + cmd)
	}
	return nil
}

func (s *vfSource) Do(cmd string, args ...interface{}) (interface{}, error) {
	switch cmd {
	case "":
		out := s.pend
		s.pend = nil
		if out == nil {
			out = []interface{}{}
		}
		return out, nil
	case "info":
		txt := "# Keyspace\r\n"
		for db := 0; db < 4; db++ {
			n := 0
			for _, pg := range s.dbs[db] {
				n += len(pg)
			}
			if n > 0 {
				txt += "db" + strconv.Itoa(db) + ":keys=" + strconv.Itoa(n) + ",expires=0,avg_ttl=0\r\n"
			}
		}
		return []byte(txt), nil
	case "select":
		s.cur = args[0].(int)
		s.page = 0
		return "OK", nil
	}
	vfFail("model source: unexpected command " + cmd)
	return nil, nil
}
func (s *vfSource) Flush() error                  { return nil }
func (s *vfSource) Receive() (interface{}, error) { return nil, nil }
func (s *vfSource) Close() error                  { return nil }
func (s *vfSource) Err() error                    { return nil }

// harness scanner: the pages of the database currently selected on the source
type vfScanner struct {
	src  *vfSource
	done bool
}

func (sc *vfScanner) ScanKey() ([]string, error) {
	pgs := sc.src.dbs[sc.src.cur]
	var keys []string
	if sc.src.page < len(pgs) {
		for _, k := range pgs[sc.src.page] {
			keys = append(keys, k.name)
		}
	}
	sc.src.page++
	sc.done = sc.src.page >= len(pgs)
	return keys, nil
}
func (sc *vfScanner) EndNode() bool { return sc.done }
func (sc *vfScanner) Close()        {}

var _ scanner.Scanner = (*vfScanner)(nil)

func VF_C16_Rump() {
	pages := vfParam("pages", 1)
	batch := vfParam("batch", 1)
	cfgIx := vfParam("cfg", 0)
	conf.Options.ScanSpecialCloud = ""
	conf.Options.ScanKeyFile = ""
	conf.Options.ScanKeyNumber = uint32(batch)
	conf.Options.Qps = 10
	conf.Options.BigKeyThreshold = 1 << 40
	conf.Options.KeyExists = "none"
	conf.Options.TargetDB = -1
	conf.Options.FilterDBBlacklist, conf.Options.FilterDBWhitelist = nil, nil
	conf.Options.FilterKeyBlacklist, conf.Options.FilterKeyWhitelist = nil, nil
	var keyBlack []string
	dbBlack := -1
	switch cfgIx {
	case 1:
		conf.Options.TargetDB = 3
		conf.Options.KeyExists = "rewrite"
	case 2:
		conf.Options.FilterDBBlacklist = []string{"1"}
		dbBlack = 1
	case 3:
		keyBlack = []string{vfStr("prefix", 1)}
		conf.Options.FilterKeyBlacklist = keyBlack
	case 4, 5:
		conf.Options.BigKeyThreshold = 12
	}
	// source keyspace: db 0 with `pages` pages (the second one possibly empty), db 1 with one page
	src := &vfSource{dbs: map[int][][]vfSrcKey{}}
	mk := func(name string) vfSrcKey {
		k := vfSrcKey{name: name}
		state := 1
		if cfgIx != 5 {
			ns := 3
			if (cfgIx == 0 || cfgIx == 4) && pages == 1 {
				ns = 4 // the late-vanish state only in the plain and the big-key configuration (path budget)
			}
			state = vfPick("state", ns)
		}
		switch state {
		case 3: // still there at DUMP, expired or deleted before PTTL is answered
			k.pttl, k.late = 1, true
		case 0: // vanished between SCAN and DUMP
			k.dump, k.pttl = nil, -2
		case 1: // no expiry
			k.pttl = -1
		default:
			k.pttl = vfInt64("pttl")
			vfAssume(k.pttl > 0)
			vfAssume(k.pttl < 1<<40)
		}
		if k.pttl != -2 {
			if cfgIx >= 4 && vfPick("big", 2) == 1 {
				// a list of two elements as a DUMP payload (13+ bytes: above the threshold)
				e1, e2 := vfBytes("e", 1), vfBytes("e", 1)
				k.dump = append([]byte{1, 2, 1, e1[0], 1, e2[0]}, vfBytes("trailer", 10)...)
				k.big = true
			} else {
				k.dump = vfBytes("dump", 2)
			}
		}
		return k
	}
	n := 0
	for p := 0; p < pages; p++ {
		var pg []vfSrcKey
		cnt := 1
		if cfgIx != 5 {
			cnt = 1 + vfPick("pagelen", 2)
		}
		if p == 1 {
			cnt = vfPick("pagelen", 2) // the middle page may be empty
		}
		for i := 0; i < cnt; i++ {
			pg = append(pg, mk(string(append([]byte{byte('a' + n)}, vfBytes("kname", 1)...))))
			n++
		}
		src.dbs[0] = append(src.dbs[0], pg)
	}
	src.dbs[1] = [][]vfSrcKey{{mk("z1")}}
	if cfgIx == 5 {
		// big and ordinary keys mixed inside a database other than 0: the two target connections
		// keep separate SELECT state
		src.dbs[1] = [][]vfSrcKey{{mk("z1"), mk("z2")}}
	}
	tgt := vfNewRedis()
	tgtBig := &vfRedis{dbs: tgt.dbs}
	sc := &vfScanner{src: src}
	vfStub("github.com/alibaba/RedisShake/redis-shake/scanner.NewScanner", func(c redigo.Conn, tencent string, aliyun int) scanner.Scanner { return sc })
	vfStub("github.com/alibaba/RedisShake/redis-shake/common.StartQoS", func(limit int) chan struct{} {
		ch := make(chan struct{})
		close(ch)
		return ch
	})
	tick := make(chan time.Time)
	vfStub("time.NewTicker", func(d time.Duration) *time.Ticker { return &time.Ticker{C: tick} })
	go func() {
		for {
			vfIdle() // the 1 s statistics tick fires only when everything else is waiting
			tick <- time.Time{}
		}
	}()
	dre := NewDbRumperExecutor(0, 0, src, tgt, tgtBig, "")
	dre.exec()

	// every key that passes the filters and still exists arrived once, with payload, ttl and database
	for db, pgs := range src.dbs {
		for _, pg := range pgs {
			for _, k := range pg {
				wantDb := db
				if conf.Options.TargetDB != -1 {
					wantDb = conf.Options.TargetDB
				}
				pass := db != dbBlack
				if keyBlack != nil {
					pass = vfAnd(pass, vfNot(vfHasPrefix(k.name, keyBlack[0])))
				}
				exists := k.dump != nil && !k.late
				_, tk := tgt.find(wantDb, []byte(k.name))
				if !exists {
					vfAssert(tk == nil, "a key that vanished on the source appeared on the target")
					continue
				}
				if !pass {
					vfAssert(tk == nil, "a filtered key reached the target (rump)")
					continue
				}
				vfAssert(tk != nil, "a scanned key that passes the filters and still exists is missing on the target")
				if tk == nil {
					continue
				}
				if k.big {
					ok := tk.kind == "list" && len(tk.elems) == 2 && tk.elems[0][0] == k.dump[3] && tk.elems[1][0] == k.dump[5]
					vfAssert(ok, "big key was not expanded to the source's elements")
				} else {
					vfAssert(tk.kind == "blob" && len(tk.payload) == len(k.dump) && vfEqBytes(tk.payload, k.dump), "target payload differs from the source DUMP payload")
				}
				if k.pttl == -1 {
					vfAssert(!tk.hasTTL, "a key without expiry got one on the target")
				} else {
					vfAssert(vfAnd(tk.hasTTL, tk.ttl == k.pttl), "remaining time-to-live differs")
				}
			}
		}
	}
	vfObserve("ntrace", len(tgt.trace))
	vfAssertTwin(len(tgt.trace) == 0, "twin")
}
