package filter

// C06 — configured filters are honoured identically in every mode and phase (the predicates).
//
//vf:job C06 quick VF_C06_Key klen=1..4 mode=0..2
//vf:job C06 quick VF_C06_Key klen=0 mode=0..1
//vf:job C06 quick VF_C06_DB
//vf:job C06 quick VF_C06_Slot
//vf:job C06 quick VF_C06_Commands
//vf:job C06 quick VF_C06_CheckpointKey mode=0..2
//vf:assume C06 the per-mode application of these predicates is checked by VF_C03_Parse (incremental), VF_C07_SyncRDB (full sync), VF_C07_RestoreRDB (restore) and VF_C16_Rump (rump), each against the same reference predicate
//vf:outside C06 main/sanitize.go (how the lists are read from the configuration file: the package does not type-check); restoreCommand's inner-usage command replay

import (
	"strconv"

	utils "github.com/alibaba/RedisShake/redis-shake/common"
	conf "github.com/alibaba/RedisShake/redis-shake/configure"
)

func vfResetFilters() {
	conf.Options.FilterKeyBlacklist = nil
	conf.Options.FilterKeyWhitelist = nil
	conf.Options.FilterDBBlacklist = nil
	conf.Options.FilterDBWhitelist = nil
	conf.Options.FilterSlot = nil
	conf.Options.FilterLua = false
}

// key blacklist excludes keys starting with a listed prefix, whitelist passes only such keys
func VF_C06_Key() {
	vfResetFilters()
	klen := vfParam("klen", 2)
	mode := vfParam("mode", 0)
	key := vfStr("key", klen)
	p1 := vfStr("p1", 1+vfPick("p1len", 3))
	p2 := vfStr("p2", 1+vfPick("p2len", 2))
	has := vfOr(vfHasPrefix(key, p1), vfHasPrefix(key, p2))
	want := false // true = filtered
	switch mode {
	case 1:
		conf.Options.FilterKeyBlacklist = []string{p1, p2}
		want = has
	case 2:
		conf.Options.FilterKeyWhitelist = []string{p1, p2}
		want = vfNot(has)
	}
	got := FilterKey(key)
	vfAssert(got == want, "FilterKey differs from the prefix rule")
	vfAssertTwin(got, "twin")
}

// the tool's own checkpoint keys are always excluded
func VF_C06_CheckpointKey() {
	vfResetFilters()
	mode := vfParam("mode", 0)
	sfx := vfStr("sfx", vfPick("n", 3))
	switch mode {
	case 1:
		conf.Options.FilterKeyBlacklist = []string{vfStr("p", 1)}
	case 2:
		conf.Options.FilterKeyWhitelist = []string{"redis-shake"}
	}
	vfAssert(FilterKey(utils.CheckpointKey+sfx), "a checkpoint key passes the key filter")
	vfAssertTwin(!FilterKey(utils.CheckpointKey+sfx), "twin")
}

// database lists match database numbers exactly
func VF_C06_DB() {
	vfResetFilters()
	db := int(vfByte("db") % 32)
	a := int(vfByte("a") % 32)
	b := int(vfByte("b") % 32)
	in := vfOr(db == a, db == b)
	vfAssert(!FilterDB(db), "no list: every database passes")
	conf.Options.FilterDBBlacklist = []string{strconv.Itoa(a), strconv.Itoa(b)}
	vfAssert(FilterDB(db) == in, "database blacklist does not match numbers exactly")
	conf.Options.FilterDBBlacklist = nil
	conf.Options.FilterDBWhitelist = []string{strconv.Itoa(a), strconv.Itoa(b)}
	vfAssert(FilterDB(db) == vfNot(in), "database whitelist does not match numbers exactly")
	vfAssertTwin(FilterDB(db), "twin")
}

// a slot list passes only keys hashing to a listed slot
func VF_C06_Slot() {
	vfResetFilters()
	slot := int(vfUint16("slot") & 0x3fff)
	vfAssert(!FilterSlot(slot), "no slot list: every slot passes")
	a := int(vfUint16("a") & 0x3fff)
	vfAssume(a < 1200) // keeps the decimal rendering of the list entry small
	conf.Options.FilterSlot = []string{strconv.Itoa(a), "16383"}
	vfAssert(FilterSlot(slot) == vfNot(vfOr(slot == a, slot == 16383)), "slot list does not pass exactly the listed slots")
	vfAssertTwin(FilterSlot(slot), "twin")
}

func vfCaseMix(word string, tag string) string {
	b := []byte(word)
	for i := range b {
		if b[i] >= 'a' && b[i] <= 'z' {
			b[i] = vfIteByte(vfBool(tag), b[i]-32, b[i])
		}
	}
	return string(b)
}

// script commands are excluded exactly when filter.lua is set; opinfo always; any letter case
func VF_C06_Commands() {
	vfResetFilters()
	lua := vfPick("lua", 2) == 1
	conf.Options.FilterLua = lua
	which := vfPick("cmd", 6)
	names := []string{"opinfo", "eval", "evalsha", "script", "set", "evals"}
	name := vfCaseMix(names[which], "up")
	got := FilterCommands(name)
	want := which == 0 || (lua && which >= 1 && which <= 3)
	vfAssert(got == want, "command filter differs: "+names[which])
	vfAssertTwin(got, "twin")
}
