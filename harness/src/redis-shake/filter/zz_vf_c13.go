package filter

// C13 — key filtering rewrites multi-key commands without corrupting them.
//
//vf:job C13 quick VF_C13_Row row=0..69 arity=1..5 mode=0..1
//vf:job C13 thorough VF_C13_Row row=0..69 arity=6..8 mode=0..1
//vf:job C13 quick VF_C13_Row row=0..69 arity=65,129 mode=0..1 wide=1
//vf:job C13 thorough VF_C13_Row row=0..69 arity=64,66,67,127,128,130 mode=0..1 wide=1
//vf:job C13 quick VF_C13_NoFilter row=0..69
//vf:job C13 quick VF_C13_Unknown
//vf:job C13 quick VF_C13_TwoSources opt_globalyield=1 opt_preempt=2
//vf:replayE C13 VF_C13_TwoSources
//vf:assume C13 key positions on the specification side are Redis' published (first,last,step) for the 70 commands of the tool's table (hard-coded in the harness)
//vf:assume C13 arities are restricted to those for which the command has at least one key and complete companion groups (a master never propagates a malformed command)
//vf:outside C13 argument strings longer than 1 byte (each argument is one symbolic byte; prefixes are one symbolic byte each, two per list)
//vf:outside C13 commands absent from the tool's table

import (
	"sort"

	conf "github.com/alibaba/RedisShake/redis-shake/configure"
)

type vfKeySpec struct{ first, last, step int }

// Redis' own command table (src/server.c, redisCommandTable) for the commands of the tool's table.
var vfRedisKeySpec = map[string]vfKeySpec{
	"set": {1, 1, 1}, "setnx": {1, 1, 1}, "setex": {1, 1, 1}, "psetex": {1, 1, 1}, "append": {1, 1, 1},
	"del": {1, -1, 1}, "unlink": {1, -1, 1}, "setbit": {1, 1, 1}, "bitfield": {1, 1, 1}, "setrange": {1, 1, 1},
	"incr": {1, 1, 1}, "decr": {1, 1, 1}, "rpush": {1, 1, 1}, "lpush": {1, 1, 1}, "rpushx": {1, 1, 1},
	"lpushx": {1, 1, 1}, "linsert": {1, 1, 1}, "rpop": {1, 1, 1}, "lpop": {1, 1, 1}, "brpop": {1, -2, 1},
	"brpoplpush": {1, 2, 1}, "blpop": {1, -2, 1}, "lset": {1, 1, 1}, "ltrim": {1, 1, 1}, "lrem": {1, 1, 1},
	"rpoplpush": {1, 2, 1}, "sadd": {1, 1, 1}, "srem": {1, 1, 1}, "smove": {1, 2, 1}, "spop": {1, 1, 1},
	"sinterstore": {1, -1, 1}, "sunionstore": {1, -1, 1}, "sdiffstore": {1, -1, 1}, "zadd": {1, 1, 1},
	"zincrby": {1, 1, 1}, "zrem": {1, 1, 1}, "zremrangebyscore": {1, 1, 1}, "zremrangebyrank": {1, 1, 1},
	"zremrangebylex": {1, 1, 1}, "hset": {1, 1, 1}, "hsetnx": {1, 1, 1}, "hmset": {1, 1, 1}, "hincrby": {1, 1, 1},
	"hincrbyfloat": {1, 1, 1}, "hdel": {1, 1, 1}, "incrby": {1, 1, 1}, "decrby": {1, 1, 1}, "incrbyfloat": {1, 1, 1},
	"getset": {1, 1, 1}, "mset": {1, -1, 2}, "msetnx": {1, -1, 2}, "move": {1, 1, 1}, "rename": {1, 2, 1},
	"renamenx": {1, 2, 1}, "expire": {1, 1, 1}, "expireat": {1, 1, 1}, "pexpire": {1, 1, 1}, "pexpireat": {1, 1, 1},
	"persist": {1, 1, 1}, "restore": {1, 1, 1}, "restore-asking": {1, 1, 1}, "bitop": {2, -1, 1}, "geoadd": {1, 1, 1},
	"pfadd": {1, 1, 1}, "pfmerge": {1, -1, 1},
}

func vfRowNames() []string {
	var names []string
	for k := range RedisCommands {
		names = append(names, k)
	}
	sort.Strings(names)
	return names
}

// vfPass is the statement's key filter: blacklist excludes keys starting with a
// listed prefix, whitelist passes only such keys.
func vfPass(key []byte, black bool, prefixes []string) bool {
	has := false
	for _, p := range prefixes {
		has = vfOr(has, vfHasPrefix(string(key), p))
	}
	if black {
		return vfNot(has)
	}
	return has
}

func vfSetFilter(mode int) (bool, []string) {
	prefixes := []string{vfStr("p0", 1), vfStr("p1", 1)}
	conf.Options.FilterKeyBlacklist = nil
	conf.Options.FilterKeyWhitelist = nil
	if mode == 0 {
		conf.Options.FilterKeyBlacklist = prefixes
	} else {
		conf.Options.FilterKeyWhitelist = prefixes
	}
	return mode == 0, prefixes
}

func VF_C13_Row() {
	names := vfRowNames()
	row := vfParam("row", 0)
	arity := vfParam("arity", 1)
	mode := vfParam("mode", 0)
	if row >= len(names) {
		return
	}
	name := names[row]
	spec, ok := vfRedisKeySpec[name]
	if !ok {
		vfFail("command " + name + " of the tool's table has no key spec on the specification side")
		return
	}
	lo := spec.first - 1
	hi := spec.last - 1
	if spec.last < 0 {
		hi = arity + spec.last
	}
	// valid arities only
	if hi < lo || hi >= arity || (hi-lo)%spec.step != 0 || hi+spec.step-1 >= arity {
		return
	}
	black, prefixes := vfSetFilter(mode)
	args := make([][]byte, arity)
	if vfParam("wide", 0) == 1 {
		// wide commands (MSET of 32+ pairs, DEL/BITOP of 64+ keys): every argument is the same
		// concrete byte except the first key, the first key at argv index 64 or above (counting the
		// command name) and the last key, which are symbolic
		if hi-lo < 8 {
			return // the command has no wide form at this arity
		}
		for i := range args {
			args[i] = []byte{'x'}
		}
		args[lo] = vfBytes("a", 1)
		args[hi] = vfBytes("a", 1)
		for i := lo; i <= hi; i += spec.step {
			if i >= 63 {
				args[i] = vfBytes("a", 1) // the first key at argv index 64 or above
				break
			}
		}
	} else {
		for i := range args {
			args[i] = vfBytes("a", 1)
		}
	}
	// specification
	var want [][]byte
	want = append(want, args[:lo]...)
	npass := 0
	nkeys := 0
	for i := lo; i <= hi; i += spec.step {
		nkeys++
		// the decision per key is taken concretely (fork): each key independently passes or not
		if vfPass(args[i], black, prefixes) {
			npass++
			want = append(want, args[i:i+spec.step]...)
		}
	}
	want = append(want, args[hi+spec.step:]...)

	got, drop := HandleFilterKeyWithCommand(name, args)

	vfObserve("npass", npass)
	vfObserve("drop", drop)
	vfAssertTwin(drop, "twin: always dropped")
	if npass == 0 {
		vfAssert(drop, "command with no passing key must be dropped: "+name)
		return
	}
	vfAssert(vfNot(drop), "command with a passing key must not be dropped: "+name)
	if len(got) != len(want) {
		vfObserve("gotlen", len(got))
		vfObserve("wantlen", len(want))
		vfAssert(false, "rewritten argument count differs from the specification: "+name)
		return
	}
	same := true
	for i := range want {
		same = vfAnd(same, vfEqBytes(got[i], want[i]))
	}
	vfAssert(same, "rewritten arguments differ from the specification: "+name)
	if npass == nkeys {
		unchanged := len(got) == len(args)
		for i := 0; unchanged && i < len(args); i++ {
			unchanged = vfAnd(unchanged, vfEqBytes(got[i], args[i]))
		}
		vfAssert(unchanged, "all keys pass but the command was changed: "+name)
	}
}

// VF_C13_NoFilter: without a key filter every command is forwarded unchanged.
func VF_C13_NoFilter() {
	names := vfRowNames()
	row := vfParam("row", 0)
	if row >= len(names) {
		return
	}
	conf.Options.FilterKeyBlacklist = nil
	conf.Options.FilterKeyWhitelist = nil
	args := [][]byte{vfBytes("a", 1), vfBytes("a", 1), vfBytes("a", 1)}
	got, drop := HandleFilterKeyWithCommand(names[row], args)
	vfAssert(vfNot(drop), "dropped although no key filter is configured")
	ok := len(got) == 3
	for i := 0; ok && i < 3; i++ {
		ok = vfAnd(ok, vfEqBytes(got[i], args[i]))
	}
	vfAssert(ok, "changed although no key filter is configured")
	vfAssertTwin(drop, "twin")
}

// VF_C13_Unknown: a command that is not key-addressed in the table passes unchanged.
func VF_C13_Unknown() {
	vfSetFilter(vfPick("mode", 2))
	args := [][]byte{vfBytes("a", 1), vfBytes("a", 1)}
	for _, name := range []string{"publish", "flushall", "eval", "ping", "select", ""} {
		got, drop := HandleFilterKeyWithCommand(name, args)
		vfAssert(vfNot(drop), "unknown command dropped: "+name)
		ok := len(got) == 2
		for i := 0; ok && i < 2; i++ {
			ok = vfAnd(ok, vfEqBytes(got[i], args[i]))
		}
		vfAssert(ok, "unknown command changed: "+name)
	}
	got, drop := HandleFilterKeyWithCommand("set", nil)
	vfAssert(vfNot(drop), "empty argv dropped")
	vfAssert(len(got) == 0, "empty argv changed")
	vfAssertTwin(drop, "twin")
}

// two source links filter their commands at the same time (sync mode runs one parser goroutine per
// source): each call must return what it returns alone. Reads and writes of package-level variables
// are scheduling points in this run (option globalyield), so any state the filter keeps between
// calls is exposed to the other goroutine.
func VF_C13_TwoSources() {
	conf.Options.FilterKeyBlacklist = []string{"x"}
	conf.Options.FilterKeyWhitelist = nil
	a := [][]byte{[]byte("x1"), []byte("v1"), []byte("a2"), []byte("v2"), []byte("x3"), []byte("v3")}
	b := [][]byte{[]byte("b1"), []byte("x2"), []byte("x3"), []byte("b4")}
	cp := func(in [][]byte) [][]byte {
		out := make([][]byte, len(in))
		for i, x := range in {
			out[i] = append([]byte{}, x...)
		}
		return out
	}
	eq := func(x, y [][]byte) bool {
		if len(x) != len(y) {
			return false
		}
		for i := range x {
			if string(x[i]) != string(y[i]) {
				return false
			}
		}
		return true
	}
	wantA, dropA := HandleFilterKeyWithCommand("mset", cp(a))
	wantA = cp(wantA)
	wantB, dropB := HandleFilterKeyWithCommand("del", cp(b))
	wantB = cp(wantB)
	vfAssert(!dropA && !dropB && len(wantA) == 2 && len(wantB) == 2, "sequential results")
	done := make(chan int, 2)
	var gotA, gotB [][]byte
	var dA, dB bool
	go func() {
		gotA, dA = HandleFilterKeyWithCommand("mset", cp(a))
		done <- 1
	}()
	go func() {
		gotB, dB = HandleFilterKeyWithCommand("del", cp(b))
		done <- 1
	}()
	<-done
	<-done
	vfAssert(dA == dropA && eq(gotA, wantA), "a command filtered while another source link filters its own comes out differently (keys of another command, lost keys or values)")
	vfAssert(dB == dropB && eq(gotB, wantB), "a command filtered while another source link filters its own comes out differently (keys of another command, lost keys or values)")
	vfAssertTwin(dA, "twin")
}
