package checkpoint

// C14 — resume picks its own source's newest checkpoint and reads what the sender wrote.
//
//vf:use tinyredis
//vf:job C14 quick VF_C14_Load l0=0..6 l1=0..6
//vf:job C14 quick VF_C14_Version ver=0..3
//vf:job C14 quick VF_C14_Load l0=1,4,6 l1=0,5 addr=1
//vf:job C19 quick VF_C14_Load l0=4 l1=5 secret=1
//vf:replayE C19 VF_C14_Load
//vf:job C14 thorough VF_C14_Load3 l0=1..3 l1=0..3 l2=1..3
//vf:job C14 thorough VF_C14_Load3 l0=4..6 l1=0 l2=1..6
//vf:job C14 thorough VF_C14_Load3 l0=4..6 l1=3 l2=1..3
//vf:replayE C14 VF_C14_Load VF_C14_Version VF_C14_Load3
//vf:stub C14 utils.OpenRedisConn: returns the model target (tiny Redis); its fidelity to a real Redis is trusted
//vf:assume C14 own fields are exactly <addr>-runid, <addr>-offset, <addr>-version; candidates are the databases INFO keyspace lists whose checkpoint key exists; ties between equal offsets may resolve to any tied database
//vf:outside C14 cluster targets (isCluster); more than 3 databases; offsets with more than 2 digits; three databases that all hold multi-source layouts (the thorough tier runs 63 of the 252 layout triples: all triples over the single-source layouts, and the multi-source layouts 4..6 in the first database against simple others)

import (
	"strconv"

	utils "github.com/alibaba/RedisShake/redis-shake/common"
	redigo "github.com/garyburd/redigo/redis"
)

const vfCk = "ckpt"

var (
	vfA  = "a:1"  // our source
	vfAx = "a:12" // a source whose address extends ours
	vfB  = "b:1"
)

// vfAddrs selects the address style: 0 = short host:port, 1 = host names that contain dashes (the
// checkpoint fields are "<address>-runid/-offset/-version", so the address itself may hold the separator)
func vfAddrs(style int) {
	vfA, vfAx, vfB = "a:1", "a:12", "b:1"
	if style == 1 {
		vfA, vfAx, vfB = "r-a-0:1", "r-a-0:12", "r-a:1"
	}
}

type vfWant struct {
	hasKey    bool
	hasOffset bool
	offset    int64
	hasRunID  bool
	runid     []byte
	version   int64
}

func vfDigits(tag string) []byte {
	n := 1 + vfPick(tag+"len", 2)
	d := vfBytes(tag, n)
	for i, c := range d {
		vfAssume(c >= '0')
		vfAssume(c <= '9')
		if i == 0 && n > 1 {
			vfAssume(c != '0')
		}
	}
	return d
}

func vfNum(d []byte) int64 {
	v := int64(0)
	for _, c := range d {
		v = v*10 + int64(c-'0')
	}
	return v
}

// vfLayout fills database db of the model target according to a layout and returns what the loader must see there.
func vfLayout(r *vfRedis, db int, layout int, ver int) vfWant {
	var w vfWant
	hset := func(f string, v []byte) {
		r.cur = db
		r.apply(vfCmd{name: "hset", args: [][]byte{[]byte(vfCk), []byte(f), v}})
	}
	own := func(withRunID bool) {
		if withRunID {
			w.runid = vfBytes("runid", 2)
			w.hasRunID = true
			hset(vfA+"-runid", w.runid)
		}
		if ver >= 0 {
			hset(vfA+"-version", []byte(strconv.Itoa(ver)))
			w.version = int64(ver)
		}
		d := vfDigits("off")
		w.offset, w.hasOffset = vfNum(d), true
		hset(vfA+"-offset", d)
	}
	other := func(addr string) {
		hset(addr+"-runid", vfBytes("orunid", 2))
		hset(addr+"-offset", vfDigits("ooff"))
		hset(addr+"-version", []byte("1"))
	}
	switch layout {
	case 0: // data only, no checkpoint key
		r.cur = db
		r.apply(vfCmd{name: "set", args: [][]byte{[]byte("k"), []byte("v")}})
		return w
	case 1:
		own(true)
	case 2:
		own(false)
	case 3:
		other(vfAx)
	case 4:
		other(vfAx)
		own(true)
	case 5:
		own(true)
		other(vfB)
	case 6:
		hset("foreign", vfBytes("fv", 1))
		own(true)
		other(vfAx)
	}
	w.hasKey = true
	return w
}

type vfSnap struct {
	db    int
	pairs []vfPair
}

func vfSnapshot(r *vfRedis, dbs []int) []vfSnap {
	var out []vfSnap
	for _, db := range dbs {
		_, k := r.find(db, []byte(vfCk))
		s := vfSnap{db: db}
		if k != nil {
			for _, p := range k.pairs {
				s.pairs = append(s.pairs, vfPair{append([]byte{}, p.f...), append([]byte{}, p.v...)})
			}
		}
		out = append(out, s)
	}
	return out
}

func vfIsOwn(f []byte) bool {
	s := string(f)
	return s == vfA+"-runid" || s == vfA+"-offset" || s == vfA+"-version"
}

func vfCheckLoad(r *vfRedis, dbs []int, wants []vfWant) {
	before := vfSnapshot(r, dbs)
	vfStub("github.com/alibaba/RedisShake/redis-shake/common.OpenRedisConn",
		func(target []string, authType, passwd string, isCluster bool, tls bool) (redigo.Conn, error) { return r, nil })
	vfMapOrder(3)
	passwd := "pw"
	if vfParam("secret", 0) == 1 {
		// C19: the target password is a symbolic secret; every log line of this path is checked
		passwd = vfStr("tgtpw", 6)
		vfSecret("target password", passwd)
	}
	runid, offset, db, err := LoadCheckpoint(0, vfA, []string{"t:1"}, "auth", passwd, vfCk, false, false)

	// specification
	best := int64(-1)
	for _, w := range wants {
		if w.hasKey && w.hasOffset && w.offset > best {
			best = w.offset
		}
	}
	if best < 0 {
		vfAssert(err == nil && offset == -1, "no own checkpoint: offset -1 must be reported so that a full sync follows")
		vfAssertTwin(offset != -1, "twin")
		return
	}
	// which listed database did the loader choose? it must be one holding the greatest own offset
	chosen := -1
	for i, w := range wants {
		if w.hasKey && w.hasOffset && w.offset == best {
			if err != nil || db == dbs[i] || db == -1 {
				if chosen < 0 || (db == dbs[i]) {
					chosen = i
				}
			}
		}
	}
	// version gate on the chosen entry
	tooOld := false
	for i, w := range wants {
		if w.hasKey && w.hasOffset && w.offset == best && (db == dbs[i] || err != nil || db == -1) {
			if w.version < int64(utils.FcvCheckpoint.FeatureCompatibleVersion) {
				tooOld = true
			}
		}
	}
	_ = chosen
	if err != nil {
		vfAssert(tooOld, "a compatible newest checkpoint was refused")
		return
	}
	vfAssert(offset == best, "loader did not return the greatest offset recorded for its own source")
	okOne := false
	for i, w := range wants {
		if !(w.hasKey && w.hasOffset && w.offset == best) {
			continue
		}
		if w.hasRunID {
			okOne = vfOr(okOne, vfAnd(db == dbs[i], vfEqStr(runid, string(w.runid))))
		} else {
			okOne = vfOr(okOne, vfAnd(db == -1, runid == "?"))
		}
		okOne = vfAnd(okOne, true)
	}
	vfAssert(okOne, "run id / database returned are not those of the newest own checkpoint")
	for i, w := range wants {
		if w.hasKey && w.hasOffset && w.offset == best && db == dbs[i] {
			vfAssert(w.version >= int64(utils.FcvCheckpoint.FeatureCompatibleVersion), "a checkpoint written by an incompatible older version was accepted")
		}
	}
	// afterwards: foreign fields untouched everywhere; stale own runid/offset removed in the other databases
	after := vfSnapshot(r, dbs)
	for i := range dbs {
		for _, p := range before[i].pairs {
			if vfIsOwn(p.f) {
				continue
			}
			found := false
			for _, q := range after[i].pairs {
				if string(q.f) == string(p.f) {
					found = vfOr(found, vfEqBytes(q.v, p.v))
				}
			}
			vfAssert(found, "a field of another source (or a foreign field) was changed or removed")
		}
		if dbs[i] != db {
			for _, q := range after[i].pairs {
				s := string(q.f)
				vfAssert(s != vfA+"-runid" && s != vfA+"-offset", "stale own checkpoint left in another database")
			}
		}
	}
	vfAssertTwin(offset != best, "twin")
}

func VF_C14_Load() {
	vfAddrs(vfParam("addr", 0))
	r := vfNewRedis()
	ver := 1
	w0 := vfLayout(r, 0, vfParam("l0", 1), ver)
	w1 := vfLayout(r, 2, vfParam("l1", 0), ver)
	r.cur = 0
	vfCheckLoad(r, []int{0, 2}, []vfWant{w0, w1})
}

func VF_C14_Load3() {
	vfAddrs(vfParam("addr", 0))
	r := vfNewRedis()
	w0 := vfLayout(r, 0, vfParam("l0", 1), 1)
	w1 := vfLayout(r, 1, vfParam("l1", 0), 1)
	w2 := vfLayout(r, 5, vfParam("l2", 1), 1)
	r.cur = 0
	vfCheckLoad(r, []int{0, 1, 5}, []vfWant{w0, w1, w2})
}

// version gate: absent / 0 / 1 / 2 on a single own checkpoint
func VF_C14_Version() {
	vfAddrs(vfParam("addr", 0))
	r := vfNewRedis()
	ver := vfParam("ver", 0) - 1 // -1 = absent
	w0 := vfLayout(r, 3, 1, ver)
	r.cur = 0
	vfCheckLoad(r, []int{3}, []vfWant{w0})
}
