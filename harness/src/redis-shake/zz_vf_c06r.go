package run

// C06 — restore mode, command replay (`extra`): the commands that follow the RDB in the input are
// forwarded to the target under the same database, key, command and Lua filters as incremental sync.
//
//vf:use cmdstream
//vf:job C06 quick VF_C06_RestoreCommand k=1 cfg=0..4
//vf:job C06 quick VF_C06_RestoreCommand k=2 cfg=1,3,4
//vf:job C06 thorough VF_C06_RestoreCommand k=2 cfg=0..4
//vf:replayE C06 VF_C06_RestoreCommand
//vf:stub C06 utils.OpenNetConn (command replay run): model connection that records what is written and never answers; the input reader parks once the script is consumed (restoreCommand never returns by design); time.Sleep is a scheduling point
//vf:assume C06 command replay: configurations without a fixed target database (restoreCommand forwards SELECT as read; target.db handling there is outside C06); scripts start with a SELECT

import (
	"bufio"
	"bytes"
	"net"
	"strconv"
	"strings"
	"time"

	"github.com/alibaba/RedisShake/pkg/redis"
)

type vfSinkConn struct {
	written []byte
}

func (c *vfSinkConn) Read(p []byte) (int, error)         { vfPark(); return 0, nil }
func (c *vfSinkConn) Write(p []byte) (int, error)        { c.written = append(c.written, p...); return len(p), nil }
func (c *vfSinkConn) Close() error                       { return nil }
func (c *vfSinkConn) LocalAddr() net.Addr                { return vfAddrD{} }
func (c *vfSinkConn) RemoteAddr() net.Addr               { return vfAddrD{} }
func (c *vfSinkConn) SetDeadline(t time.Time) error      { return nil }
func (c *vfSinkConn) SetReadDeadline(t time.Time) error  { return nil }
func (c *vfSinkConn) SetWriteDeadline(t time.Time) error { return nil }

func VF_C06_RestoreCommand() {
	k := vfParam("k", 1)
	cfg := vfConfig(vfParam("cfg", 0))
	var script []vfSrcCmd
	var stream []byte
	var ends []int64
	for i := 0; i < k+1; i++ {
		var c vfSrcCmd
		if i == 0 {
			c = vfTemplate(0)
		} else {
			c = vfTemplate(vfPick("tmpl", vfNTemplates))
		}
		script = append(script, c)
		enc, err := redis.EncodeToBytes(redis.ChangeArgsToResp(c.argv[0], c.argv[1:]))
		if err != nil {
			vfFail("encode")
		}
		stream = append(stream, enc...)
		ends = append(ends, int64(len(stream)))
	}
	want := vfWantOf(cfg, script, ends, 0)

	sink := &vfSinkConn{}
	vfStub("github.com/alibaba/RedisShake/redis-shake/common.OpenNetConn", func(target, authType, passwd string, tls bool) (net.Conn, error) { return sink, nil })
	rd := &readerThenPark{data: stream, done: make(chan int, 1)}
	dr := &dbRestorer{id: 0, target: []string{"t:1"}}
	go dr.restoreCommand(bufio.NewReaderSize(rd, 4096), dr.target, "auth", "pw", false)
	<-rd.done // every command was read and handled (each forward is flushed before the next read)

	// replay what reached the target with a current-database register
	var got []vfExpect
	tcur := 0
	src := bytes.NewReader(sink.written)
	br := bufio.NewReader(src)
	for src.Len() > 0 || br.Buffered() > 0 {
		resp, err := redis.Decode(br)
		vfAssert(err == nil, "bytes sent to the target are not a sequence of commands")
		if err != nil {
			return
		}
		name, args, err := redis.ParseArgs(resp)
		vfAssert(err == nil, "bytes sent to the target are not a command")
		if err != nil {
			return
		}
		name = strings.ToLower(name)
		if name == "select" {
			n, err := strconv.Atoi(string(args[0]))
			vfAssert(err == nil, "forwarded SELECT with a non-numeric database")
			tcur = n
			continue
		}
		if name == "ping" || (name == "publish" && len(args) > 0 && strings.EqualFold(string(args[0]), "__sentinel__:hello")) {
			continue
		}
		if name == "multi" || name == "exec" {
			continue
		}
		got = append(got, vfExpect{db: tcur, name: name, args: args})
	}
	vfAssert(len(got) == len(want), "restore mode forwards a command that the filters exclude, or drops one they pass")
	if len(got) != len(want) {
		return
	}
	for i := range want {
		g, w := got[i], want[i]
		vfAssert(g.name == w.name, "forwarded command name differs / order changed")
		vfAssert(g.db == w.db, "command forwarded into another database")
		vfAssert(len(g.args) == len(w.args), "argument list differs (keys excluded by the key filter must be removed)")
		if len(g.args) == len(w.args) {
			for j := range w.args {
				vfAssert(vfEqBytes(g.args[j], w.args[j]), "argument bytes differ")
			}
		}
	}
	vfAssertTwin(len(want) == 0, "twin")
}
