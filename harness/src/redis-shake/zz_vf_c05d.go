package run

// C05 — dump mode: the output file is byte-identical to the n RDB bytes and the bytes after them stay unread.
//
//vf:job C05 quick VF_C05_Dump nrdb=1..3 nl=0..1
//vf:job C05 quick VF_C05_Dump nrdb=1..2 nl=0 timer=1..2
//vf:replayE C05 VF_C05_Dump
//vf:stub C05 utils.OpenNetConn: scripted connection delivering newline keep-alives, '$n', the RDB and command bytes in fragments of symbolic size; utils.OpenWriteFile and (*os.File).Write/Close: in-memory file; time.After: never fires

import (
	"errors"
	"net"
	"os"
	"strconv"
	"time"

	conf "github.com/alibaba/RedisShake/redis-shake/configure"
)

type vfAddrD struct{}

func (vfAddrD) Network() string { return "tcp" }
func (vfAddrD) String() string  { return "s:1" }

type vfDumpConn struct {
	data    []byte
	pos     int
	nsplit  int
	written []byte
}

func (c *vfDumpConn) Read(p []byte) (int, error) {
	rest := len(c.data) - c.pos
	if rest == 0 {
		return 0, errors.New("vf: no more data")
	}
	max := len(p)
	if rest < max {
		max = rest
	}
	n := max
	if max > 1 && c.nsplit < 2 {
		c.nsplit++
		n = []int{1, (max + 1) / 2, max}[vfPick("frag", 3)]
	}
	copy(p, c.data[c.pos:c.pos+n])
	c.pos += n
	return n, nil
}
func (c *vfDumpConn) Write(p []byte) (int, error)        { c.written = append(c.written, p...); return len(p), nil }
func (c *vfDumpConn) Close() error                       { return nil }
func (c *vfDumpConn) LocalAddr() net.Addr                { return vfAddrD{} }
func (c *vfDumpConn) RemoteAddr() net.Addr               { return vfAddrD{} }
func (c *vfDumpConn) SetDeadline(t time.Time) error      { return nil }
func (c *vfDumpConn) SetReadDeadline(t time.Time) error  { return nil }
func (c *vfDumpConn) SetWriteDeadline(t time.Time) error { return nil }

func VF_C05_Dump() {
	nrdb := vfParam("nrdb", 2)
	nl := vfParam("nl", 0)
	rdb := vfBytes("rdb", nrdb)
	cmds := vfBytes("cmd", 3)
	var s []byte
	for i := 0; i < nl; i++ {
		s = append(s, '\n')
	}
	s = append(s, '$')
	s = append(s, strconv.Itoa(nrdb)...)
	s = append(s, '\r', '\n')
	s = append(s, rdb...)
	s = append(s, cmds...)
	conn := &vfDumpConn{data: s}
	var file []byte
	vfStub("github.com/alibaba/RedisShake/redis-shake/common.OpenNetConn", func(target, authType, passwd string, tls bool) (net.Conn, error) { return conn, nil })
	vfStub("github.com/alibaba/RedisShake/redis-shake/common.OpenWriteFile", func(name string) *os.File { return new(os.File) })
	closed := false
	lateWrite := false
	timers := vfParam("timer", 0)
	vfStub("(*os.File).Close", func(f *os.File) error { closed = true; return nil })
	vfStub("(*os.File).Write", func(f *os.File, b []byte) (int, error) {
		if timers > 0 {
			vfYield() // output storage may be slow: the write is a scheduling point
		}
		if closed {
			lateWrite = true
			return 0, errors.New("vf: file already closed")
		}
		file = append(file, b...)
		return len(b), nil
	})
	// timer=0: the one-second progress timers never fire; timer=k: up to k of the timers, chosen freely, fire at once
	// (a tick may come at any moment relative to the copy goroutine)
	vfStub("time.After", func(d time.Duration) <-chan time.Time {
		ch := make(chan time.Time, 1)
		if timers > 0 && vfPick("fire", 2) == 1 {
			timers--
			ch <- time.Time{}
		}
		return ch
	})
	conf.Options.SourceAuthType = "auth"
	conf.Options.SourceTLSEnable = false
	dd := &dbDumper{id: 0, source: "s:1", sourcePassword: "", output: "out.rdb"}
	reader, _, nsize := dd.dump()
	vfAssert(nsize == int64(nrdb), "announced size differs from the header")
	vfAssert(!lateWrite, "RDB bytes were written after the output file had been closed")
	vfAssert(len(file) == nrdb, "dump file does not have exactly n bytes")
	if len(file) == nrdb {
		vfAssert(vfEqBytes(file, rdb), "dump file is not byte-identical to the RDB bytes")
	}
	// the bytes after the RDB stay unread for the command phase
	got := make([]byte, 0, 3)
	buf := make([]byte, 3)
	for len(got) < 3 {
		n, err := reader.Read(buf[:3-len(got)])
		vfAssert(err == nil && n > 0, "command bytes after the RDB are not available to the command phase")
		if err != nil || n == 0 {
			return
		}
		got = append(got, buf[:n]...)
	}
	vfAssert(vfEqBytes(got, cmds), "bytes following the RDB were lost, duplicated or reordered at the boundary")
	vfAssertTwin(len(file) != nrdb, "twin")
}
