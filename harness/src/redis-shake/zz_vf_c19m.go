package run

// C19 — sync mode start-up (CmdSync.Main): the per-shard descriptors carry the passwords; nothing
// logged while they are built and handed to the syncers contains them, and every syncer gets the
// passwords of the configuration.
//
//vf:job C19 quick VF_C19_SyncMain shards=1..2 cluster=0..1
//vf:replayE C19 VF_C19_SyncMain
//vf:stub C19 (*DbSyncer).Sync (sync-main run): records the descriptor it was constructed with and returns (the syncer itself is VF_C19_SyncStart); metric.AddMetric: no-op; utils.GetSlotDistribution: fails with an error text made of the address only (cluster=1: the error branch of Main)

import (
	"errors"

	utils "github.com/alibaba/RedisShake/redis-shake/common"
	conf "github.com/alibaba/RedisShake/redis-shake/configure"
	"github.com/alibaba/RedisShake/redis-shake/dbSync"
)

func VF_C19_SyncMain() {
	shards := vfParam("shards", 1)
	cluster := vfParam("cluster", 0) == 1
	ps := vfStr("srcpw", 6)
	pt := vfStr("tgtpw", 6)
	vfSecret("source password", ps)
	vfSecret("target password", pt)
	conf.Options.Type = conf.TypeSync
	conf.Options.SourcePasswordRaw, conf.Options.TargetPasswordRaw = ps, pt
	conf.Options.SourcePasswordEncoding, conf.Options.TargetPasswordEncoding = "", ""
	conf.Options.SourceType, conf.Options.TargetType = conf.RedisTypeStandalone, conf.RedisTypeStandalone
	conf.Options.SourceAddressList = []string{"s:1", "s:2"}[:shards]
	conf.Options.TargetAddressList = []string{"t:1"}
	conf.Options.SourceRdbParallel = 1
	conf.Options.Metric = false
	utils.TargetRoundRobin = 0
	if cluster {
		conf.Options.SourceType = conf.RedisTypeCluster
		vfStub("github.com/alibaba/RedisShake/redis-shake/common.GetSlotDistribution", func(target, authType, auth string, tls bool) ([]utils.SlotOwner, error) {
			return nil, errors.New("vf: cannot reach " + target)
		})
	}
	vfStub("github.com/alibaba/RedisShake/redis-shake/metric.AddMetric", func(id int) {})
	started := 0
	vfStub("(*github.com/alibaba/RedisShake/redis-shake/dbSync.DbSyncer).Sync", func(ds *dbSync.DbSyncer) { started++ })
	cmd := &CmdSync{}
	done := make(chan int, 1)
	go func() {
		cmd.Main() // returns on the cluster error branch, otherwise blocks for ever once the syncers run
		done <- 1
	}()
	if cluster {
		<-done
		vfAssert(started == 0, "a syncer was started although the slot distribution is unknown")
	} else {
		vfWaitFor(func() bool { return started == shards })
		for i := 0; i < shards; i++ {
			vfAssert(cmd.dbSyncers[i] != nil, "a shard has no syncer")
		}
	}
	vfAssert(vfLogCount() > 0, "no log line was produced (vacuous)")
	vfAssertTwin(started > 2, "twin")
}
