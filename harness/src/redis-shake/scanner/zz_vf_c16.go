package scanner

// C16 — key-file driven scans: every line is returned once, in order, and the scan ends.
//
//vf:job C16 quick VF_C16_KeyFile lines=0..4 batch=1..2 eol=0..1

import (
	"bufio"
	"bytes"

	conf "github.com/alibaba/RedisShake/redis-shake/configure"
)

func VF_C16_KeyFile() {
	nlines := vfParam("lines", 2)
	batch := vfParam("batch", 1)
	trailingEOL := vfParam("eol", 1) == 1
	conf.Options.ScanKeyNumber = uint32(batch)
	var content []byte
	var want [][]byte
	for i := 0; i < nlines; i++ {
		k := vfBytes("line", 1+i%2)
		for _, c := range k {
			vfAssume(c != '\n')
			vfAssume(c != '\r')
		}
		want = append(want, k)
		content = append(content, k...)
		if i < nlines-1 || trailingEOL {
			content = append(content, '\n')
		}
	}
	kfs := &KeyFileScanner{bufScan: bufio.NewScanner(bytes.NewReader(content)), cnt: -1}
	var got []string
	calls := 0
	for {
		keys, err := kfs.ScanKey()
		vfAssert(err == nil, "ScanKey failed")
		calls++
		vfAssert(len(keys) <= batch, "more keys than the batch size in one page")
		got = append(got, keys...)
		if kfs.EndNode() {
			break
		}
		if calls > nlines+2 {
			vfFail("the key-file scan does not terminate")
		}
	}
	vfAssert(len(got) == nlines, "the scan did not return exactly one key per line")
	if len(got) == nlines {
		ok := true
		for i := range want {
			ok = vfAnd(ok, vfEqStr(got[i], string(want[i])))
		}
		vfAssert(ok, "keys are not the file's lines, in order")
	}
	vfAssertTwin(len(got) != nlines, "twin")
}
