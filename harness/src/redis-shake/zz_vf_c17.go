package run

// C17 — decode mode prints every element of the RDB, recoverably (restricted claim).
//
//vf:use compact
//vf:job C17 quick VF_C17_Decode kind=0..5 par=1..2
//vf:job C17 quick VF_C17_Decode kind=7 par=1..2
//vf:job C17 thorough VF_C17_Decode kind=6 par=1
//vf:job C17 quick VF_C17_DecodeMany par=1..2
//vf:job C17 quick VF_C17_DecodeTick opt_preempt=3
//vf:job C17 thorough VF_C17_DecodeMany par=3
//vf:job C17 thorough VF_C17_Decode kind=0..5 par=3
//vf:job C17 thorough VF_C17_Decode kind=0,1,4 par=2 opt_preempt=2
//vf:job C17 quick VF_C17_DecodeBig par=2
//vf:replayE C17 VF_C17_Decode VF_C17_DecodeMany VF_C17_DecodeBig VF_C17_DecodeTick
//vf:opt C17 preempt=1 delaybound=1
//vf:stub C17 encoding/json.Marshal: contract model (flat struct -> {"tag":value,...} in field order, strings NOT escaped, integers decimal, error iff a float is NaN/Inf as documented); utils.OpenReadFile/OpenWriteFile and (*os.File).Write/Close: in-memory output; utils.NewRDBLoader: pre-filled closed channel (the parser is C01); time.After: never fires
//vf:assume C17 base64 on the specification side is encoding/base64 of the standard library (trusted); scores are compared through the trusted FormatFloat/ParseFloat round trip
//vf:outside C17 JSON text production and escaping (that a printed line parses back as JSON): encoding/json is reflection based and not encodable; file I/O; progress output; more than 3 entries; unsynchronised use of shared objects is visible only through its effect at scheduling points (VF_C17_DecodeTick: progress tick vs. output write), not as a memory-model level race; schedules with more than one deviation from round-robin order except for the single-entry runs of the string, list and zset kinds on two workers (thorough)

import (
	"bufio"
	"encoding/base64"
	"math"
	"os"
	"strconv"
	"time"

	"github.com/alibaba/RedisShake/pkg/libs/atomic2"
	"github.com/alibaba/RedisShake/pkg/rdb"
	utils "github.com/alibaba/RedisShake/redis-shake/common"
	conf "github.com/alibaba/RedisShake/redis-shake/configure"
	"github.com/cupcake/rdb/crc64"
)

var vfOut []byte

func vfDecodeEnv(pipe chan *rdb.BinEntry) {
	vfOut = nil
	vfStub("github.com/alibaba/RedisShake/redis-shake/common.OpenReadFile", func(name string) (*os.File, int64) { return new(os.File), 1 })
	vfStub("github.com/alibaba/RedisShake/redis-shake/common.OpenWriteFile", func(name string) *os.File { return new(os.File) })
	vfStub("(*os.File).Close", func(f *os.File) error { return nil })
	timers := vfParam("timer", 0)
	if vfForcedTimers > 0 {
		timers = vfForcedTimers
	}
	slowOut := timers > 0
	vfStub("(*os.File).Write", func(f *os.File, b []byte) (int, error) {
		if slowOut {
			vfYield() // output storage may be slow: the write is a scheduling point
		}
		vfOut = append(vfOut, b...)
		return len(b), nil
	})
	vfStub("github.com/alibaba/RedisShake/redis-shake/common.NewRDBLoader", func(r *bufio.Reader, rb *atomic2.Int64, size int) chan *rdb.BinEntry { return pipe })
	// timer=0: the one-second progress timers never fire; timer=k: up to k of them, chosen freely, fire at once
	vfStub("time.After", func(d time.Duration) <-chan time.Time {
		ch := make(chan time.Time, 1)
		if timers > 0 && vfPick("fire", 2) == 1 {
			timers--
			go func() { ch <- time.Time{} }() // fires when the scheduler gets to it: at any later moment
		}
		return ch
	})
	_ = utils.CheckpointKey
}

var vfForcedTimers int

func vfSetParamTimer(n int) { vfForcedTimers = n }

type vfKV struct {
	name string
	val  []byte
}

func vfStruct(out []byte, i int, c byte) bool {
	// a structural byte is a concrete byte of the output (values may be symbolic; the tool never
	// emits a quote inside a value: toText maps it to '.', base64 has none)
	return vfIsConcrete(out[i:i+1]) && out[i] == c
}

// vfParse splits the output into lines of "name":value pairs looking at structural bytes only
func vfParse(out []byte) [][]vfKV {
	var lines [][]vfKV
	var cur []vfKV
	i := 0
	for i < len(out) {
		switch {
		case vfStruct(out, i, '\n'):
			lines = append(lines, cur)
			cur = nil
			i++
		case vfStruct(out, i, '"'):
			j := i + 1
			for j < len(out) && !vfStruct(out, j, '"') {
				j++
			}
			name := string(out[i+1 : j])
			j++ // closing quote
			j++ // colon
			var val []byte
			if j < len(out) && vfStruct(out, j, '"') {
				k := j + 1
				for k < len(out) && !vfStruct(out, k, '"') {
					k++
				}
				val = out[j+1 : k]
				j = k + 1
			} else {
				k := j
				for k < len(out) && !vfStruct(out, k, ',') && !vfStruct(out, k, '}') {
					k++
				}
				val = out[j:k]
				j = k
			}
			cur = append(cur, vfKV{name, val})
			i = j
		default:
			i++
		}
	}
	if cur != nil {
		lines = append(lines, cur)
	}
	return lines
}

func vfField(line []vfKV, name string) (string, bool) {
	for _, kv := range line {
		if kv.name == name {
			return string(kv.val), true
		}
	}
	return "", false
}

func vfB64(b []byte) string { return base64.StdEncoding.EncodeToString(b) }

type vfElem struct {
	typ      string
	idx      int
	field    []byte
	value    []byte
	member   []byte
	score    float64
	hasScore bool
}

func vfPlainB(tag string, n int) []byte {
	b := vfBytes(tag, n)
	if n > 0 {
		vfAssume(b[0] >= 'A')
		vfAssume(b[0] <= 'Z')
	}
	return b
}

// vfMakeEntry builds one entry of a kind and the elements the output must contain
func vfMakeEntry(kind int, key []byte, db uint32, exp uint64) (*rdb.BinEntry, []vfElem) {
	var obj interface{}
	var want []vfElem
	switch kind {
	case 0:
		v := vfPlainB("v", 2) // second byte arbitrary (non-printable, non-UTF-8 included); integer-looking strings are C12's
		obj, want = rdb.String(v), []vfElem{{typ: "string", value: v}}
	case 1:
		a, b := vfPlainB("e", 1), vfPlainB("e", 2)
		obj = rdb.List{a, b}
		want = []vfElem{{typ: "list", idx: 0, value: a}, {typ: "list", idx: 1, value: b}}
	case 2:
		f1, v1, f2, v2 := vfPlainB("f", 1), vfPlainB("v", 1), vfPlainB("f", 2), vfPlainB("v", 1)
		obj = rdb.Hash{&rdb.HashElement{Field: f1, Value: v1}, &rdb.HashElement{Field: f2, Value: v2}}
		want = []vfElem{{typ: "hash", field: f1, value: v1}, {typ: "hash", field: f2, value: v2}}
	case 3:
		m1, m2 := vfPlainB("m", 1), vfPlainB("m", 2)
		obj = rdb.Set{m1, m2}
		want = []vfElem{{typ: "set", member: m1}, {typ: "set", member: m2}}
	case 4:
		m1 := vfPlainB("m", 1)
		sc := mathFloat(vfUint64("score"))
		obj = rdb.ZSet{&rdb.ZSetElement{Member: m1, Score: sc}}
		want = []vfElem{{typ: "zset", member: m1, score: sc, hasScore: true}}
	case 5: // a ziplist-encoded hash (compact encoding) built by the reference writer
		f, v := vfBytes("zf", 1), vfBytes("zv", 2)
		zl := vfZiplist([]vfZLEntry{vfZLStr(f, 0), vfZLStr(v, 1)})
		p := append([]byte{rdb.RdbTypeHashZiplist}, vfRdbStr(zl)...)
		p = append(p, 6, 0)
		c := crc64.Digest(p)
		for i := 0; i < 8; i++ {
			p = append(p, byte(c>>(8*uint(i))))
		}
		return &rdb.BinEntry{DB: db, Key: key, Type: rdb.RdbTypeHashZiplist, Value: p, ExpireAt: exp}, []vfElem{{typ: "hash", field: f, value: v}}
	case 6, 7: // a ziplist-encoded list whose entries are integers in the ziplist's own integer encodings
		var iv int64
		var enc int
		if kind == 7 {
			// boundary values of every width, concretely (the symbolic ranges are the thorough kind 6)
			c := []struct {
				v   int64
				enc int
			}{{-128, 1}, {127, 1}, {-32768, 2}, {32767, 2}, {-32769, 3}, {32768, 3}, {-100000, 3}, {-8388608, 3}, {8388607, 3},
				{-8388609, 4}, {2147483647, 4}, {-2147483648, 4}, {2147483648, 5}, {-9223372036854775808, 5}, {12, 0}}[vfPick("zval", 15)]
			iv, enc = c.v, c.enc
		} else {
			switch vfPick("zenc", 3) {
			case 0:
				iv, enc = int64(int8(vfByte("i8"))), 1
			case 1:
				// the values Redis stores in 24 bits: beyond 16 bits, within 24
				iv, enc = int64(int32(vfUint32("i24")))>>8, 3
				vfAssume(vfOr(iv >= 32768, iv <= -32769))
			default:
				v := int32(vfUint32("i32"))
				vfAssume(vfOr(v >= 2147483640, v <= -2147483640))
				iv, enc = int64(v), 4
			}
		}
		e1, e2 := vfZLInt(iv, enc), vfZLStr(vfBytes("zs", 1), 0)
		zl := vfZiplist([]vfZLEntry{e1, e2})
		p := append([]byte{rdb.RdbTypeListZiplist}, vfRdbStr(zl)...)
		p = append(p, 6, 0)
		c := crc64.Digest(p)
		for i := 0; i < 8; i++ {
			p = append(p, byte(c>>(8*uint(i))))
		}
		return &rdb.BinEntry{DB: db, Key: key, Type: rdb.RdbTypeListZiplist, Value: p, ExpireAt: exp},
			[]vfElem{{typ: "list", idx: 0, value: e1.logical()}, {typ: "list", idx: 1, value: e2.logical()}}
	}
	p, err := rdb.EncodeDump(obj)
	if err != nil {
		vfFail("EncodeDump")
	}
	return &rdb.BinEntry{DB: db, Key: key, Type: 0, Value: p, ExpireAt: exp}, want
}

// vfLineMatches: the line carries database, type, expiry, key and the element, base64 fields decoding to the exact bytes
func vfLineMatches(line []vfKV, db uint32, exp uint64, key []byte, el vfElem) bool {
	t, _ := vfField(line, "type")
	if !vfIsConcrete([]byte(t)) || t != el.typ {
		return false
	}
	ok := true
	dbs, _ := vfField(line, "db")
	ok = vfAnd(ok, vfEqStr(dbs, strconv.FormatUint(uint64(db), 10)))
	exps, _ := vfField(line, "expireat")
	ok = vfAnd(ok, vfEqStr(exps, strconv.FormatUint(exp, 10)))
	k64, _ := vfField(line, "key64")
	ok = vfAnd(ok, vfEqStr(k64, vfB64(key)))
	switch el.typ {
	case "string":
		v64, _ := vfField(line, "value64")
		ok = vfAnd(ok, vfEqStr(v64, vfB64(el.value)))
	case "list":
		v64, _ := vfField(line, "value64")
		ix, _ := vfField(line, "index")
		ok = vfAnd(ok, vfAnd(vfEqStr(v64, vfB64(el.value)), ix == strconv.Itoa(el.idx)))
	case "hash":
		f64, _ := vfField(line, "field64")
		v64, _ := vfField(line, "value64")
		ok = vfAnd(ok, vfAnd(vfEqStr(f64, vfB64(el.field)), vfEqStr(v64, vfB64(el.value))))
	case "set":
		m64, _ := vfField(line, "member64")
		ok = vfAnd(ok, vfEqStr(m64, vfB64(el.member)))
	case "zset":
		m64, _ := vfField(line, "member64")
		ok = vfAnd(ok, vfEqStr(m64, vfB64(el.member)))
		sc, _ := vfField(line, "score")
		f, err := strconv.ParseFloat(sc, 64)
		ok = vfAnd(ok, vfAnd(err == nil, f == el.score))
	}
	return ok
}

func VF_C17_Decode() {
	kind := vfParam("kind", 0)
	conf.Options.Parallel = vfParam("par", 1)
	key := vfBytes("key", 2)
	db, exp := uint32(7), uint64(0)
	if kind < 6 { // the integer-entry kinds fork on the digits; its attributes are fixed
		db = []uint32{0, 7, 15}[vfPick("db", 3)]
		exp = []uint64{0, 1600000000123}[vfPick("exp", 2)]
	}
	e, want := vfMakeEntry(kind, key, db, exp)
	pipe := make(chan *rdb.BinEntry, 1)
	pipe <- e
	close(pipe)
	vfDecodeEnv(pipe)
	if kind == 4 {
		// known finding: a NaN or infinite score makes the JSON encoder fail and the run abort
		vfAllowAbort("C17-score-inf", vfOr(want[0].score != want[0].score, vfOr(want[0].score > 1.7976931348623157e308, want[0].score < -1.7976931348623157e308)))
	}
	cmd := &CmdDecode{}
	cmd.decode("in", "out")
	lines := vfParse(vfOut)
	vfAssert(len(lines) == len(want), "decode mode did not print exactly one line per element")
	if len(lines) != len(want) {
		return
	}
	for i, el := range want {
		vfAssert(vfLineMatches(lines[i], db, exp, key, el), "a printed line does not carry database, type, expiry, key and element (base64 fields must decode to the exact bytes)")
	}
	vfAssertTwin(len(lines) == 0, "twin")
}

func mathFloat(bits uint64) float64 { return math.Float64frombits(bits) }

// several keys through the fan-out: nothing omitted, duplicated or attributed to another key, for every schedule
func VF_C17_DecodeMany() {
	conf.Options.Parallel = vfParam("par", 2)
	type item struct {
		key  []byte
		db   uint32
		want []vfElem
	}
	var items []item
	pipe := make(chan *rdb.BinEntry, 6)
	kinds := []int{1, 0}
	// two Lua scripts among the keys: both first, both last (as Redis writes them), split, or in the middle
	pos := [][2]int{{0, 0}, {2, 2}, {0, 2}, {1, 1}}[vfPick("luapos", 4)]
	lua1, lua2 := pos[0], pos[1]
	putLua := func(pos int) {
		if lua1 == pos {
			pipe <- &rdb.BinEntry{DB: 0, Key: []byte("lua"), Type: rdb.RdbFlagAUX, Value: []byte("return 1")}
		}
		if lua2 == pos {
			pipe <- &rdb.BinEntry{DB: 0, Key: []byte("lua"), Type: rdb.RdbFlagAUX, Value: []byte("return 2")}
		}
	}
	for i, k := range kinds {
		putLua(i)
		key := append([]byte{byte('a' + i)}, vfBytes("key", 1)...)
		db := uint32(i)
		e, want := vfMakeEntry(k, key, db, 0)
		items = append(items, item{key, db, want})
		pipe <- e
	}
	putLua(2)
	close(pipe)
	vfDecodeEnv(pipe)
	cmd := &CmdDecode{}
	cmd.decode("in", "out")
	lines := vfParse(vfOut)
	total := 2
	for _, it := range items {
		total += len(it.want)
	}
	vfAssert(len(lines) == total, "number of printed lines differs from the number of elements plus scripts")
	for _, it := range items {
		for _, el := range it.want {
			n := 0
			for _, ln := range lines {
				if _, has := vfField(ln, "key64"); !has {
					continue
				}
				if vfConcBool(vfLineMatches(ln, it.db, 0, it.key, el)) {
					n++
				}
			}
			vfAssert(n == 1, "an element is omitted, duplicated or attributed to another key")
		}
	}
	nlua := 0
	for _, ln := range lines {
		t, _ := vfField(ln, "type")
		k, _ := vfField(ln, "key")
		if t == "aux" && k == "lua" {
			nlua++
		}
	}
	vfAssert(nlua == 2, "each Lua script must be printed exactly once")
	vfAssertTwin(len(lines) == 0, "twin")
}

// built once per worker (package initialisation), not once per path
var vfBigScript = func() []byte {
	script := make([]byte, 1<<20+4096)
	for i := range script {
		script[i] = 'x'
	}
	script[0], script[len(script)-1] = 'A', 'Z'
	return script
}()

// an entry whose text is larger than a megabyte next to a small one, two workers: the output is
// the two renderings one after the other in either order, never interleaved
func VF_C17_DecodeBig() {
	key := vfBytes("key", 2)
	small, _ := vfMakeEntry(0, key, 3, 0)
	// the small key alone gives its line
	conf.Options.Parallel = 1
	p1 := make(chan *rdb.BinEntry, 1)
	p1 <- small
	close(p1)
	vfDecodeEnv(p1)
	(&CmdDecode{}).decode("in", "out")
	S := append([]byte{}, vfOut...)
	vfAssert(len(S) > 0 && S[len(S)-1] == '\n', "line of the small key")
	// a Lua script of 1 MiB + 4 KiB and the small key through two workers
	script := vfBigScript
	conf.Options.Parallel = vfParam("par", 2)
	p2 := make(chan *rdb.BinEntry, 2)
	if vfPick("order", 2) == 0 {
		p2 <- &rdb.BinEntry{DB: 0, Key: []byte("lua"), Type: rdb.RdbFlagAUX, Value: script}
		p2 <- small
	} else {
		p2 <- small
		p2 <- &rdb.BinEntry{DB: 0, Key: []byte("lua"), Type: rdb.RdbFlagAUX, Value: script}
	}
	close(p2)
	vfDecodeEnv(p2)
	(&CmdDecode{}).decode("in", "out")
	out := vfOut
	head := []byte(`{"type":"aux","key":"lua","value64":"A`)
	nL := len(head) - 1 + len(script) + 3
	vfAssert(len(out) == len(S)+nL, "output size differs from the two renderings")
	if len(out) != len(S)+nL {
		return
	}
	luaAt := func(o int) bool {
		return vfEqBytes(out[o:o+len(head)], head) && vfEqBytes(out[o+nL-4:o+nL], []byte("Z\"}\n"))
	}
	smallFirst := vfAnd(vfEqBytes(out[:len(S)], S), luaAt(len(S)))
	luaFirst := vfAnd(luaAt(0), vfEqBytes(out[nL:], S))
	vfAssert(vfOr(smallFirst, luaFirst), "the text of a large entry was interleaved with another entry's line")
	vfAssertTwin(len(out) == 0, "twin")
}

// two entries, one worker, and a progress timer that fires at a moment the scheduler chooses while
// the output write is a scheduling point: whatever the main loop does on a tick must not disturb the
// writer goroutine (both lines arrive, the run ends normally)
func VF_C17_DecodeTick() {
	conf.Options.Parallel = 1
	k1, k2 := []byte("ka"), []byte("kb")
	e1, w1 := vfMakeEntry(0, k1, 3, 0)
	e2, w2 := vfMakeEntry(0, k2, 3, 0)
	pipe := make(chan *rdb.BinEntry, 2)
	pipe <- e1
	pipe <- e2
	close(pipe)
	vfSetParamTimer(1)
	vfDecodeEnv(pipe)
	(&CmdDecode{}).decode("in", "out")
	lines := vfParse(vfOut)
	vfAssert(len(lines) == 2, "decode mode did not print exactly one line per element")
	if len(lines) == 2 {
		vfAssert(vfLineMatches(lines[0], 3, 0, k1, w1[0]) && vfLineMatches(lines[1], 3, 0, k2, w2[0]), "printed lines do not carry the two entries in order")
	}
	vfAssertTwin(len(lines) == 0, "twin")
}
