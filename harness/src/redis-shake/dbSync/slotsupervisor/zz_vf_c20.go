package slotsupervisor

// C20 — source re-discovery selects a node that really is the master.
//
//vf:job C20 quick VF_C20_NodeState shape=0..5
//vf:job C20 quick VF_C20_Topology nodes=1..3 retries=0
//vf:job C20 quick VF_C20_Topology nodes=1..2 retries=1
//vf:job C19 quick VF_C20_Topology nodes=2 retries=1 secret=1
//vf:replayE C19 VF_C20_Topology
//vf:job C20 thorough VF_C20_Topology nodes=3 retries=1
//vf:job C20 thorough VF_C20_Topology nodes=2 retries=2
//vf:job C20 thorough VF_C20_Topology nodes=4 retries=0
//vf:stub C20 redisConnFactory field: harness connection whose INFO reply / errors are chosen symbolically per node and per round
//vf:stub C20 time.Sleep: no time (engine yield)
//vf:assume C20 a node's role is what its INFO replication text says in the first line starting with role:master / role:slave (reference parser in the harness)
//vf:outside C20 the real network factory (utils.OpenNetConn); more than 4 nodes; maxRetries above 2 (the recursion is uniform in its depth argument)

import (
	"github.com/alibaba/RedisShake/pkg/libs/errors"
	"github.com/alibaba/RedisShake/redis-shake/dbSync/slot"
	redigo "github.com/garyburd/redigo/redis"
)

type vfConn struct {
	reply  interface{}
	err    error
	closed *int
}

func (c *vfConn) Close() error { *c.closed++; return nil }
func (c *vfConn) Err() error   { return nil }
func (c *vfConn) Do(cmd string, args ...interface{}) (interface{}, error) {
	return c.reply, c.err
}
func (c *vfConn) Send(string, ...interface{}) error  { return nil }
func (c *vfConn) Flush() error                       { return nil }
func (c *vfConn) Receive() (interface{}, error)      { return nil, nil }

var _ redigo.Conn = (*vfConn)(nil)

// reference role parser: first line (LF separated) starting with role:master or role:slave
func vfSpecRole(text string) (master bool, known bool) {
	start := 0
	for i := 0; i <= len(text); i++ {
		if i == len(text) || text[i] == '\n' {
			line := text[start:i]
			if len(line) >= 11 && line[:11] == "role:master" {
				return true, true
			}
			if len(line) >= 10 && line[:10] == "role:slave" {
				return false, true
			}
			start = i + 1
		}
	}
	return false, false
}

// getRedisNodeState on INFO text with symbolic filler against the reference parser
func VF_C20_NodeState() {
	shape := vfParam("shape", 0)
	f1 := vfStr("f", 2)
	f2 := vfStr("g", 1)
	var text string
	switch shape {
	case 0:
		text = "# Replication\r\nrole:master\r\nconnected_slaves:" + f2 + "\r\n"
	case 1:
		text = f1 + "\nrole:slave\r\nmaster_host:" + f2 + "\n"
	case 2:
		text = f1 + "\n" + f2 + "role:master\nrole:slave\n"
	case 3:
		text = "role:" + f1 + f2 + "\n"
	case 4:
		text = f1 + "\nrole:slave\nrole:master\n"
	case 5:
		text = f1 + f2
	}
	closed := 0
	s := &slotSupervisor{maxRetries: 0}
	s.redisConnFactory = func(host, password string, tls bool) (redigo.Conn, error) {
		return &vfConn{reply: text, closed: &closed}, nil
	}
	got, err := s.getRedisNodeState("n1", "pw", false)
	wantMaster, known := vfSpecRole(text)
	vfAssert((err == nil) == known, "a node without a role line must be reported as an error, one with a role line must not")
	if err == nil {
		vfAssert(got == wantMaster, "role differs from the INFO text")
	} else {
		vfAssert(!got, "an erroring node must never count as master")
	}
	vfAssert(closed == 1, "probe connection not closed exactly once")
	// connection and command errors
	s.redisConnFactory = func(host, password string, tls bool) (redigo.Conn, error) {
		return nil, errors.New("vf-connect")
	}
	got, err = s.getRedisNodeState("n1", "pw", false)
	vfAssert(!got && err != nil, "unreachable node must be an error and not master")
	s.redisConnFactory = func(host, password string, tls bool) (redigo.Conn, error) {
		return &vfConn{err: errors.New("vf-cmd"), closed: &closed}, nil
	}
	got, err = s.getRedisNodeState("n1", "pw", false)
	vfAssert(!got && err != nil, "node answering with an error must be an error and not master")
	vfAssertTwin(got, "twin")
}

const (
	vfOutConnErr = iota
	vfOutCmdErr
	vfOutMaster
	vfOutSlave
	vfOutNoRole
	vfOutRoleNotFirst
	vfOutCount
)

var vfInfoText = []string{
	vfOutMaster:       "# Replication\r\nrole:master\r\nconnected_slaves:1\r\n",
	vfOutSlave:        "# Replication\r\nrole:slave\r\nmaster_host:x\r\n",
	vfOutNoRole:       "# Replication\r\nconnected_slaves:0\r\n",
	vfOutRoleNotFirst: "# Replication\r\nxrole:master\r\n",
}

// every per-node, per-round outcome sequence; every known-node order is covered by symmetry of the outcome choice
func VF_C20_Topology() {
	n := vfParam("nodes", 2)
	retries := vfParam("retries", 1)
	names := []string{"a:1", "b:2", "c:3", "d:4"}[:n]
	rounds := retries + 1
	// outcome[round][node]
	outcome := make([][]int, rounds)
	for r := range outcome {
		outcome[r] = make([]int, n)
		for i := range outcome[r] {
			outcome[r][i] = vfPick("out", vfOutCount)
		}
	}
	calls := make([]int, n)
	closed := 0
	pw := "pw"
	if vfParam("secret", 0) == 1 {
		pw = vfStr("srcpw", 6)
		vfSecret("source password", pw)
	}
	node := slot.SyncNode{Source: names[0], Slaves: append([]string{}, names[1:]...), SourcePassword: pw}
	s := &slotSupervisor{slot: node, maxRetries: retries}
	s.redisConnFactory = func(host, password string, tls bool) (redigo.Conn, error) {
		idx := -1
		for i, nm := range names {
			if nm == host {
				idx = i
			}
		}
		if idx < 0 {
			vfFail("probe of an unknown node")
		}
		r := calls[idx]
		calls[idx]++
		if r >= rounds {
			vfFail("more probe rounds than maxRetries+1")
			return nil, errors.New("x")
		}
		switch outcome[r][idx] {
		case vfOutConnErr:
			return nil, errors.New("vf-connect")
		case vfOutCmdErr:
			return &vfConn{err: errors.New("vf-cmd"), closed: &closed}, nil
		}
		return &vfConn{reply: vfInfoText[outcome[r][idx]], closed: &closed}, nil
	}
	res, err := s.GetSlotState()
	// the round that decides: first round with a master
	decided := -1
	for r := 0; r < rounds && decided < 0; r++ {
		for i := 0; i < n; i++ {
			if outcome[r][i] == vfOutMaster {
				decided = r
			}
		}
	}
	if decided < 0 {
		vfAssert(err != nil && res == nil, "no node reports master: the supervisor must fail instead of choosing a replica")
		for i := 0; i < n; i++ {
			vfAssert(calls[i] == rounds, "without a master every node is probed exactly maxRetries+1 times")
		}
		vfAssertTwin(err == nil, "twin")
		return
	}
	vfAssert(err == nil && res != nil, "a node reports master but discovery failed")
	if res == nil {
		return
	}
	srcIdx := -1
	for i, nm := range names {
		if nm == res.Source {
			srcIdx = i
		}
	}
	vfAssert(srcIdx >= 0, "chosen source is not a known node")
	if srcIdx >= 0 {
		vfAssert(outcome[decided][srcIdx] == vfOutMaster, "chosen source did not report the master role in the deciding round")
	}
	// every other known node is listed exactly once as replica
	vfAssert(len(res.Slaves) == n-1, "replica list does not contain every other known node exactly once")
	for i, nm := range names {
		cnt := 0
		for _, sl := range res.Slaves {
			if sl == nm {
				cnt++
			}
		}
		if i == srcIdx {
			vfAssert(cnt == 0, "source also listed as replica")
		} else {
			vfAssert(cnt == 1, "a known node is missing from (or duplicated in) the replica list")
		}
	}
	for i := 0; i < n; i++ {
		vfAssert(calls[i] == decided+1, "probing continued after a master was found, or stopped early")
	}
	vfAssert(vfEqStr(res.SourcePassword, pw), "descriptor fields lost")
	vfAssertTwin(err != nil, "twin")
}
