package latencymonitor

// C19 — the synthetic latency producer of a cluster source gets the source password; when its
// cluster client cannot be created (or a command fails) nothing it logs or keeps as its error
// contains the password.
//
//vf:job C19 quick VF_C19_Producer fail=0..1
//vf:replayE C19 VF_C19_Producer
//vf:stub C19 redis-go-cluster.NewCluster (producer run): fails with an address-only error or returns a client whose Do fails; time.NewTicker: one tick fed by the harness

import (
	"errors"
	"time"

	utils "github.com/alibaba/RedisShake/redis-shake/common"
	redis "github.com/vinllen/redis-go-cluster"
)

func VF_C19_Producer() {
	ps := vfStr("srcpw", 6)
	vfSecret("source password", ps)
	fail := vfParam("fail", 0)
	vfStub("github.com/vinllen/redis-go-cluster.NewCluster", func(o *redis.Options) (*redis.Cluster, error) {
		if fail == 0 {
			return nil, errors.New("vf: no usable node among " + o.StartNodes[0])
		}
		return &redis.Cluster{}, nil
	})
	vfStub("(*github.com/vinllen/redis-go-cluster.Cluster).Do", func(c *redis.Cluster, cmd string, args ...interface{}) (interface{}, error) {
		return nil, errors.New("vf: CLUSTERDOWN")
	})
	vfStub("(*github.com/vinllen/redis-go-cluster.Cluster).Close", func(c *redis.Cluster) {})
	tick := make(chan time.Time, 1)
	vfStub("time.NewTicker", func(d time.Duration) *time.Ticker { return &time.Ticker{C: tick} })
	slots := []utils.SlotOwner{{Master: "s:1", Slave: []string{"s:2"}, SlotLeftBoundary: 0, SlotRightBoundary: 16383}}
	p := NewSyntheticProducer(slots, ps, false)
	p.Run()
	if fail == 1 {
		tick <- time.Time{}
	}
	vfIdle()
	if err := p.Error(); err != nil {
		vfCheckNoSecret("SyntheticProducer.Error()", vfSprint(err))
	}
	vfAssert(vfLogCount() > 0, "no log line was produced (vacuous)")
	vfAssertTwin(fail > 1, "twin")
}
