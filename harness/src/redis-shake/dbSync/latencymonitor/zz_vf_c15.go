package latencymonitor

// C15 — the latency monitor's CRC16 copy and its synthetic key search.
//
//vf:job C15 quick VF_C15_LatencyCrcStep
//vf:job C15 quick VF_C15_LatencyKeyInRange lr=0..3

func vfXmodemStepL(crc uint16, b byte) uint16 {
	crc ^= uint16(b) << 8
	for i := 0; i < 8; i++ {
		crc = (crc << 1) ^ (0x1021 & -(crc >> 15))
	}
	return crc
}

func VF_C15_LatencyCrcStep() {
	s := vfUint16("s")
	b := vfByte("b")
	got := (s << 8) ^ crc16tab[byte(s>>8)^b]
	vfAssert(got == vfXmodemStepL(s, b), "latency monitor crc16 table step differs from the bitwise CRC16/XMODEM step")
	k := vfStr("k", 2)
	vfAssert(crc16(k) == vfXmodemStepL(vfXmodemStepL(0, k[0]), k[1]), "latency monitor crc16 of two bytes is not the fold of two steps")
	vfAssert(crc16("123456789") == 0x31c3, "check value")
	vfAssertTwin(got == s, "twin")
}

var vfRangesL = [][2]int{{0, 16383}, {0, 4095}, {8192, 12287}, {12288, 16383}}

func VF_C15_LatencyKeyInRange() {
	lr := vfRangesL[vfParam("lr", 0)]
	key := findKeyInRange(lr[0], lr[1])
	slot := int(crc16(key) & 0x3fff)
	vfAssert(slot >= lr[0] && slot <= lr[1], "synthetic latency key does not hash into the requested slot range")
	vfAssert(len(key) > len(keyPrefix) && key[:len(keyPrefix)] == keyPrefix, "synthetic key lost its prefix")
	vfAssertTwin(slot < lr[0], "twin")
}
