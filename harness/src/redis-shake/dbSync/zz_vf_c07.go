package dbSync

// C07 — parallel full sync restores every key exactly once into the right database (sync mode);
// also serves C06 (full-sync filter application).
//
//vf:job C07 quick VF_C07_SyncRDB m=1..2 par=1..2 cfg=0..3
//vf:job C07 quick VF_C07_SyncRDB m=3 par=1 cfg=0..3
//vf:job C07 quick VF_C07_SyncRDB m=2 par=1 cfg=4..5
//vf:job C07 thorough VF_C07_SyncRDB m=2 par=2 cfg=4..5
//vf:job C07 thorough VF_C07_SyncRDB m=3 par=2 cfg=0..2
//vf:job C07 thorough VF_C07_SyncRDB m=2 par=3 cfg=0..1
//vf:job C06 quick VF_C07_SyncRDB m=2 par=1 cfg=0..5
//vf:replayE C07 VF_C07_SyncRDB
//vf:replayE C06 VF_C07_SyncRDB
//vf:opt C07 preempt=1 thorough_preempt=1 thorough_maxpaths=2000000
//vf:stub C07 utils.NewRDBLoader: a closed channel pre-filled with the entries (the parser itself is C01); utils.OpenRedisConn: one recording connection per worker, or a connect error; utils.RestoreRdbEntry: records (connection, selected db, entry) and returns a symbolic nil/error (the restore itself is C02); time.After: never fires
//vf:outside C07 more than 3 workers; three entries on two workers with an active key filter (cfg=3: above 150 000 schedules); progress logging arithmetic

import (
	"bufio"
	"errors"
	"time"

	"github.com/alibaba/RedisShake/pkg/libs/atomic2"
	"github.com/alibaba/RedisShake/pkg/rdb"
	utils "github.com/alibaba/RedisShake/redis-shake/common"
	conf "github.com/alibaba/RedisShake/redis-shake/configure"
	"github.com/alibaba/RedisShake/redis-shake/dbSync/slot"
	redigo "github.com/garyburd/redigo/redis"
)

type vfRestoreRec struct {
	conn  *vfRedis
	db    int
	entry *rdb.BinEntry
}

func VF_C07_SyncRDB() {
	m := vfParam("m", 2)
	par := vfParam("par", 2)
	cfgIx := vfParam("cfg", 0)
	vfStubEnv()
	cfg := vfCfg{targetDB: -1}
	slotList := []string(nil)
	switch cfgIx {
	case 1:
		cfg.targetDB = 2
	case 2:
		cfg.dbBlack = []string{"2"}
	case 3:
		cfg.keyBlack = []string{vfStr("prefix", 1)}
	case 4:
		cfg.keyWhite = []string{vfStr("prefix", 1)}
	case 5:
		slotList = []string{"0", "5"}
	}
	conf.Options.FilterDBWhitelist, conf.Options.FilterDBBlacklist = nil, cfg.dbBlack
	conf.Options.FilterKeyWhitelist, conf.Options.FilterKeyBlacklist = cfg.keyWhite, cfg.keyBlack
	conf.Options.FilterSlot = slotList
	conf.Options.FilterLua = false
	conf.Options.TargetDB = cfg.targetDB
	conf.Options.Parallel = par
	conf.Options.TargetType = "standalone"
	conf.Options.Metric = false

	entries := make([]*rdb.BinEntry, m)
	failAt := make([]bool, m)
	luaIx := vfPick("lua", m+1) - 1   // at most one script entry
	failIx := vfPick("fail", m+1) - 1 // at most one failing restore
	for i := range entries {
		e := &rdb.BinEntry{DB: uint32(vfPick("db", 2) * 2), Key: vfBytes("key", 1), Type: 0, Value: []byte{byte(i)}}
		if i == luaIx {
			e.Type, e.Key = rdb.RdbFlagAUX, []byte("lua")
		}
		entries[i] = e
		failAt[i] = i == failIx
	}
	pipe := make(chan *rdb.BinEntry, m)
	for _, e := range entries {
		pipe <- e
	}
	close(pipe)
	vfStub("github.com/alibaba/RedisShake/redis-shake/common.NewRDBLoader", func(r *bufio.Reader, rb *atomic2.Int64, size int) chan *rdb.BinEntry { return pipe })
	var conns []*vfRedis
	connFail := vfPick("connfail", par+1) // 0 = none, i = the i-th open fails
	opens := 0
	vfStub("github.com/alibaba/RedisShake/redis-shake/common.OpenRedisConn", func(target []string, authType, passwd string, isCluster bool, tls bool) (redigo.Conn, error) {
		opens++
		if opens == connFail {
			return nil, errors.New("vf: connect failed")
		}
		c := vfNewRedis()
		conns = append(conns, c)
		return c, nil
	})
	var recs []vfRestoreRec
	anyFail := false
	vfStub("github.com/alibaba/RedisShake/redis-shake/common.RestoreRdbEntry", func(c redigo.Conn, e *rdb.BinEntry) error {
		r := c.(*vfRedis)
		recs = append(recs, vfRestoreRec{conn: r, db: r.cur, entry: e})
		for i, x := range entries {
			if x == e && failAt[i] {
				anyFail = true
				return errors.New("vf: restore failed")
			}
		}
		return nil
	})
	vfStub("time.After", func(d time.Duration) <-chan time.Time { return make(chan time.Time) })

	ds := &DbSyncer{id: 0, node: &slot.SyncNode{Source: "s:1"}}
	err := ds.syncRDBFile(nil, []string{"t:1"}, "auth", "pw", 1, false)

	workersAlive := par
	if connFail != 0 {
		workersAlive--
	}
	// every entry: restored at most once; exactly once when it passes the filters (unless the run failed before reaching it)
	for i, e := range entries {
		cnt := 0
		var rec vfRestoreRec
		for _, r := range recs {
			if r.entry == e {
				cnt++
				rec = r
			}
		}
		isLua := e.Type == rdb.RdbFlagAUX
		pass := !vfDbFiltered(cfg, int(e.DB))
		if !isLua {
			pass = pass && vfKeyPasses(cfg, e.Key)
			if slotList != nil {
				sl := int(utils.KeyToSlot(string(e.Key)))
				pass = pass && (sl == 0 || sl == 5)
			}
		}
		vfAssert(cnt <= 1, "an entry was restored twice")
		if !pass {
			vfAssertK(cnt == 0, "a filtered entry reached the target", "C06-none", false)
			continue
		}
		if err == nil {
			if isLua {
				vfAssert(cnt == 1, "a Lua script was dropped by a key or slot filter although filter.lua is off")
			} else {
				vfAssert(cnt == 1, "a key that passes the filters was not restored although the run reports success")
			}
		}
		if cnt == 1 {
			wantDb := int(e.DB)
			if cfg.targetDB != -1 {
				wantDb = cfg.targetDB
			}
			vfAssert(rec.db == wantDb, "entry restored while another database was selected on that connection")
		}
		_ = i
	}
	// completion: success only after the whole RDB was consumed; failures are reported
	if err == nil {
		vfAssert(len(pipe) == 0, "run finished as a success although entries were left unprocessed")
		vfAssert(!anyFail, "a restore failed but the run finished as a success")
		vfAssert(connFail == 0, "a worker could not connect but the run finished as a success")
	} else {
		vfAssert(anyFail || connFail != 0, "run reports a failure although nothing failed")
	}
	if workersAlive > 0 && !anyFail {
		vfAssert(len(pipe) == 0, "entries left although a live worker never failed")
	}
	vfAssertTwin(err != nil, "twin")
}
