package dbSync

// C03 (target side) / C04 — sendTargetCommand: batching, barriers, ticker flush, checkpoints.
//
//vf:job C03 quick VF_C03_Send k=2 resume=0 sc=0..2
//vf:job C03 quick VF_C03_Barrier
//vf:job C03 thorough VF_C03_Send k=3 resume=0 sc=0..2 opt_preempt=1
//vf:job C03 thorough VF_C03_Send k=2 resume=0 sc=0..2
//vf:job C04 quick VF_C03_Send k=2 resume=1 sc=0..2
//vf:job C04 quick VF_C04_ResumeLeg
//vf:job C04 quick VF_C04_ResumeTwice
//vf:job C04 thorough VF_C03_Send k=3 resume=1 sc=0..2 opt_preempt=1
//vf:job C04 thorough VF_C03_Send k=2 resume=1 sc=0..2
//vf:replayE C03 VF_C03_Send
//vf:replayE C04 VF_C03_Send VF_C04_ResumeLeg VF_C04_ResumeTwice
//vf:opt C03 preempt=1 thorough_preempt=2
//vf:opt C04 preempt=1 thorough_preempt=2
//vf:stub C04 time.NewTicker: a channel fed by the harness at a symbolic point (every relative timing of the 500 ms tick is a scheduling choice); target connection: model target with MULTI/EXEC semantics; metric.GetMetric: private object
//vf:assume C03 source histories are well formed: MULTI is not nested, EXEC closes a MULTI, no SELECT inside a transaction
//vf:assume C04 a cut of the target connection falls between two commands: a partially received command is equivalent to not received (Redis applies complete commands only and MULTI blocks only on EXEC)
//vf:outside C03 receiveTargetReply, fetchOffset, metrics; target errors other than send/flush failure
//vf:outside C04 process crash inside redigo's write buffer at byte granularity

import (
	"github.com/alibaba/RedisShake/pkg/redis"
	"strconv"
	"strings"
	"time"

	"github.com/alibaba/RedisShake/redis-shake/checkpoint"
	utils "github.com/alibaba/RedisShake/redis-shake/common"
	conf "github.com/alibaba/RedisShake/redis-shake/configure"
	"github.com/alibaba/RedisShake/redis-shake/dbSync/slot"
	redigo "github.com/garyburd/redigo/redis"
)

// items as parseSourceCommand would emit them for a source history
func vfItems(k int) []cmdDetail {
	var items []cmdDetail
	off := int64(100)
	db := 0
	inTx := false
	for i := 0; i < k; i++ {
		off += int64(10 + i)
		var it cmdDetail
		kind := vfPick("item", 6)
		// a master's stream is well formed: MULTI is not nested, EXEC closes a MULTI, no SELECT inside a transaction
		if (kind == 3 && inTx) || (kind == 4 && !inTx) || (kind == 0 && inTx) {
			vfAssume(false)
		}
		if kind == 3 {
			inTx = true
		}
		if kind == 4 {
			inTx = false
		}
		switch kind {
		case 0:
			db = 1 + vfPick("db", 2)
			it = cmdDetail{Cmd: "select", Args: []interface{}{[]byte(strconv.Itoa(db))}}
		case 1:
			it = cmdDetail{Cmd: "set", Args: []interface{}{vfBytes("key", 1), vfBytes("val", 1)}}
		case 2:
			it = cmdDetail{Cmd: "ping"}
		case 3:
			it = cmdDetail{Cmd: "multi"}
		case 4:
			it = cmdDetail{Cmd: "exec"}
		default:
			it = cmdDetail{Cmd: "rpush", Args: []interface{}{vfBytes("key", 1), vfBytes("val", 1)}}
		}
		it.Offset = off
		it.Db = db
		items = append(items, it)
	}
	return items
}

func vfArgsEq(a [][]byte, b []interface{}) bool {
	if len(a) != len(b) {
		return false
	}
	r := true
	for i := range a {
		bb := b[i].([]byte)
		r = vfAnd(r, len(a[i]) == len(bb) && vfEqBytes(a[i], bb))
	}
	return r
}

func VF_C03_Send() {
	k := vfParam("k", 2)
	resume := vfParam("resume", 0) == 1
	vfStubEnv()
	conf.Options.Metric = false
	conf.Options.LogLevel = "info"
	conf.Options.SenderCount = []uint{1, 2, uint(k + 1)}[vfParam("sc", 1)]
	conf.Options.SenderSize = 1 << 40
	if vfPick("size", 2) == 1 {
		conf.Options.SenderSize = 1
	}
	tick := make(chan time.Time)
	vfStub("time.NewTicker", func(d time.Duration) *time.Ticker { return &time.Ticker{C: tick} })
	items := vfItems(k)
	r := vfNewRedis()
	ds := &DbSyncer{id: 0, node: &slot.SyncNode{Source: "s:1"}, sendBuf: make(chan cmdDetail, k+1), checkpointName: "ckpt", runId: "rid-1",
		enableResumeFromBreakPoint: resume}
	go ds.sendTargetCommand(r)
	// producer: the items, with one tick delivered at a symbolic position in between
	tickAt := vfPick("tickAt", k+1)
	for i, it := range items {
		if i == tickAt {
			tick <- time.Time{}
		}
		ds.sendBuf <- it
	}
	// the stream goes idle; the sender drains its queue well within a tick period, and within
	// two further ticks everything received must have reached the target
	vfWaitFor(func() bool { return len(ds.sendBuf) == 0 })
	tick <- time.Time{}
	tick <- time.Time{}

	// ---- oracle over the Send/Flush trace
	flushed := 0
	if n := len(r.flushAt); n > 0 {
		flushed = r.flushAt[n-1]
	}
	vfAssert(flushed == len(r.trace), "commands remain unflushed after the stream went idle for two ticks")
	prev := 0
	for _, f := range r.flushAt {
		vfAssert(f > prev, "flush with nothing to send")
		prev = f
	}
	// data commands sent, in order, are exactly the received items minus source multi/exec
	var want []cmdDetail
	for _, it := range items {
		if it.Cmd == "multi" || it.Cmd == "exec" {
			continue
		}
		want = append(want, it)
	}
	var sent []vfCmd
	for _, c := range r.trace {
		if c.name == "multi" || c.name == "exec" {
			continue
		}
		if c.name == "hset" && len(c.args) > 0 && string(c.args[0]) == "ckpt" {
			continue
		}
		sent = append(sent, c)
	}
	vfAssert(len(sent) == len(want), "the commands sent are not exactly the received ones minus source MULTI/EXEC")
	if len(sent) == len(want) {
		for i := range want {
			vfAssert(sent[i].name == want[i].Cmd, "command order or name changed")
			vfAssert(vfArgsEq(sent[i].args, want[i].Args), "arguments are not byte-identical")
		}
	}
	if !resume {
		for _, c := range r.trace {
			vfAssert(c.name != "multi" && c.name != "exec", "source-side MULTI/EXEC marker forwarded without resume")
		}
		vfAssertTwin(len(sent) == 0, "twin")
		return
	}
	vfCheckGroups(r, items, ds)
	vfAssertTwin(len(sent) == 0, "twin")
}

// C04: every flushed group is MULTI, commands, [runid, version]?, offset, EXEC; after any cut the
// applied prefix equals the items with Offset <= stored offset
func vfCheckGroups(r *vfRedis, items []cmdDetail, ds *DbSyncer) {
	type group struct {
		cmds   []vfCmd
		offset int64
		hasOff bool
		db     int
		lone   bool
	}
	var groups []group
	i := 0
	tr := r.trace
	for i < len(tr) {
		if tr[i].name == "ping" && (i == 0 || tr[i-1].name != "multi") {
			// a lone ping carries no checkpoint
			groups = append(groups, group{cmds: []vfCmd{tr[i]}, lone: true})
			i++
			continue
		}
		ok := tr[i].name == "multi"
		vfAssert(ok, "a data command was sent outside a MULTI/EXEC group although resume is enabled")
		if !ok {
			return
		}
		i++
		g := group{}
		for i < len(tr) && tr[i].name != "exec" {
			c := tr[i]
			if c.name == "hset" && string(c.args[0]) == "ckpt" {
				f := string(c.args[1])
				switch f {
				case "s:1-offset":
					n, okn := c.num(2)
					vfAssert(okn, "offset field is not numeric")
					g.offset, g.hasOff = n, true
				case "s:1-runid":
					vfAssert(string(c.args[2]) == "rid-1", "run id stored differs from the source's")
				case "s:1-version":
				default:
					vfAssert(false, "unexpected checkpoint field "+f)
				}
			} else {
				vfAssert(!g.hasOff, "data command after the checkpoint inside a group")
				g.cmds = append(g.cmds, c)
			}
			i++
		}
		vfAssert(i < len(tr), "group without EXEC")
		i++
		vfAssert(g.hasOff, "group without a checkpoint offset")
		groups = append(groups, g)
	}
	// every flush boundary coincides with a group boundary: a flush never ends inside MULTI..EXEC
	for _, f := range r.flushAt {
		depth := 0
		for j := 0; j < f; j++ {
			if tr[j].name == "multi" {
				depth++
			}
			if tr[j].name == "exec" {
				depth--
			}
		}
		vfAssert(depth == 0, "a flush ends inside a MULTI block")
	}
	// stored offset = offset of the last command of the group; one database per group
	idx := 0
	var data []cmdDetail
	for _, it := range items {
		if it.Cmd != "multi" && it.Cmd != "exec" {
			data = append(data, it)
		}
	}
	for _, g := range groups {
		if len(g.cmds) == 0 {
			continue
		}
		if g.lone {
			idx++
			continue
		}
		last := data[idx+len(g.cmds)-1]
		vfAssert(g.offset == last.Offset, "checkpoint offset is not the source offset right after the last command of its group")
		// a group never spans databases: a select may only be the first command of its group
		for j, c := range g.cmds {
			if j > 0 {
				vfAssert(c.name != "select", "a batch spans two databases (SELECT inside a group)")
			}
		}
		idx += len(g.cmds)
	}
	// cut anywhere (every position, one after the other): what is applied equals the history up to the stored offset
	for cut := 0; cut <= len(tr); cut++ {
		r2 := vfNewRedis()
		for j := 0; j < cut; j++ {
			r2.exec1(tr[j])
		}
		var stored int64 = -1
		for db := 0; db <= 2; db++ {
			_, kk := r2.find(db, []byte("ckpt"))
			if kk != nil {
				for _, p := range kk.pairs {
					if string(p.f) == "s:1-offset" {
						n, _ := strconv.ParseInt(string(p.v), 10, 64)
						if n > stored {
							stored = n
						}
					}
				}
			}
		}
		napplied := 0
		for _, c := range r2.applied {
			if c.name == "set" || c.name == "rpush" {
				napplied++
			}
		}
		nwant := 0
		for _, it := range data {
			if (it.Cmd == "set" || it.Cmd == "rpush") && it.Offset <= stored {
				nwant++
			}
		}
		vfAssert(napplied == nwant, "after a cut the target holds commands beyond, or misses commands up to, the stored offset")
	}
}

// the barrier automaton against its specification, for all five states and the relevant command names
func VF_C03_Barrier() {
	states := []string{barrierStatusNo, barrierStatusAdd, barrierStatusHoldStart, barrierStatusHolding, barrierStatusHoldEnd}
	cmds := []string{"select", "multi", "exec", "set", "SELECT", "ping", ""}
	for _, st := range states {
		for _, c := range cmds {
			ns, fl := barrierStatus(c, st)
			inTx := st == barrierStatusHoldStart || st == barrierStatusHolding
			var wantS string
			wantF := flushStatusNo
			switch {
			case inTx && c == "exec":
				wantS, wantF = barrierStatusHoldEnd, flushStatusYes
			case inTx:
				wantS = barrierStatusHolding
			case c == "select":
				wantS, wantF = barrierStatusAdd, flushStatusYes
			case c == "multi":
				wantS, wantF = barrierStatusHoldStart, flushStatusYes
			case c == "exec":
				wantS, wantF = barrierStatusHoldEnd, flushStatusYes
			default:
				wantS = barrierStatusNo
			}
			vfAssert(ns == wantS && fl == wantF, "barrier automaton differs from its specification for "+st+"/"+c)
		}
	}
	// symbolic command name of 3 bytes: never a barrier unless it spells a barrier command
	name := vfStr("name", 4)
	_, fl := barrierStatus(name, barrierStatusNo)
	vfAssert(vfImplies(fl == flushStatusYes, vfOr(vfEqStr(name, "exec"), false)), "a non-barrier command forces a flush")
	vfAssertTwin(fl == flushStatusYes, "twin")
}

// restart leg: PSYNC runid offset+1, re-select the recorded database, loader reads what the sender wrote
func VF_C04_ResumeLeg() {
	vfStubEnv()
	conf.Options.Metric = false
	conf.Options.SenderCount = 1
	conf.Options.SenderSize = 1 << 40
	tick := make(chan time.Time)
	vfStub("time.NewTicker", func(d time.Duration) *time.Ticker { return &time.Ticker{C: tick} })
	r := vfNewRedis()
	ds := &DbSyncer{id: 0, node: &slot.SyncNode{Source: "s:1"}, sendBuf: make(chan cmdDetail, 4), checkpointName: "ckpt", runId: "rid-1", enableResumeFromBreakPoint: true}
	go ds.sendTargetCommand(r)
	off := vfInt64("off")
	vfAssume(off >= 0)
	vfAssume(off < 1000)
	db := 1 + vfPick("db", 2)
	ds.sendBuf <- cmdDetail{Cmd: "select", Args: []interface{}{[]byte(strconv.Itoa(db))}, Offset: off, Db: db}
	ds.sendBuf <- cmdDetail{Cmd: "set", Args: []interface{}{vfBytes("key", 1), vfBytes("val", 1)}, Offset: off + 7, Db: db}
	vfWaitFor(func() bool { return len(ds.sendBuf) == 0 })
	tick <- time.Time{}
	tick <- time.Time{}
	// the loader reads back exactly what the sender stored
	vfStub("github.com/alibaba/RedisShake/redis-shake/common.OpenRedisConn",
		func(target []string, authType, passwd string, isCluster bool, tls bool) (redigo.Conn, error) {
			return r, nil
		})
	runid, loaded, ldb, err := checkpoint.LoadCheckpoint(0, "s:1", []string{"t:1"}, "auth", "pw", "ckpt", false, false)
	vfAssert(err == nil, "loader refused the checkpoint the sender wrote")
	vfAssert(runid == "rid-1" && loaded == off+7 && ldb == db, "loader does not read back run id / offset / database as written by the sender")
	// a resumed parser first re-selects the recorded database
	ds2 := &DbSyncer{id: 0, node: &slot.SyncNode{Source: "s:1"}, sendBuf: make(chan cmdDetail, 4), checkpointName: "ckpt"}
	ds2.startDbId = ldb
	ds2.sourceOffset = loaded
	rd := &readerThenPark{data: nil, done: make(chan int, 1)}
	go ds2.parseSourceCommand(bufioReader(rd))
	<-rd.done
	vfAssert(len(ds2.sendBuf) == 1, "resumed parser must first emit exactly one SELECT")
	if len(ds2.sendBuf) == 1 {
		it := <-ds2.sendBuf
		vfAssert(strings.ToLower(it.Cmd) == "select" && string(it.Args[0].([]byte)) == strconv.Itoa(ldb), "resumed parser does not re-select the recorded database")
		// flushed on its own (idle source) this select carries a checkpoint: it must restate the loaded offset, not regress it
		vfAssert(it.Offset == loaded, "the re-select of a resumed run is tagged with an offset other than the loaded checkpoint offset")
	}
	_ = utils.CheckpointKey
	vfAssertTwin(err != nil, "twin")
}

// a run resumed in a database other than 0 forwards a command before the source names a database,
// then the source switches to database 0 and writes there; a second restart must find a complete
// checkpoint (run id, version, offset of the last command) in database 0
func VF_C04_ResumeTwice() {
	vfStubEnv()
	conf.Options.Metric = false
	conf.Options.SenderCount = 1
	conf.Options.SenderSize = 1 << 40
	conf.Options.TargetDB = -1
	conf.Options.FilterDBWhitelist, conf.Options.FilterDBBlacklist = nil, nil
	conf.Options.FilterKeyWhitelist, conf.Options.FilterKeyBlacklist = nil, nil
	tick := make(chan time.Time)
	vfStub("time.NewTicker", func(d time.Duration) *time.Ticker { return &time.Ticker{C: tick} })
	r := vfNewRedis()
	startDb := 1 + vfPick("db", 2)
	loaded := int64(500) // (a symbolic offset multiplies the paths by its digit forms; VF_C04_ResumeLeg has it symbolic)
	var stream []byte
	add := func(name string, args ...[]byte) {
		enc, err := redis.EncodeToBytes(redis.ChangeArgsToResp([]byte(name), args))
		if err != nil {
			vfFail("encode")
		}
		stream = append(stream, enc...)
	}
	add("set", vfBytes("key", 1), vfBytes("val", 1))
	add("select", []byte("0"))
	add("set", vfBytes("key", 1), vfBytes("val", 1))
	ds := &DbSyncer{id: 0, node: &slot.SyncNode{Source: "s:1"}, sendBuf: make(chan cmdDetail, 8), checkpointName: "ckpt", runId: "rid-1", enableResumeFromBreakPoint: true}
	ds.startDbId = startDb
	ds.sourceOffset = loaded
	go ds.sendTargetCommand(r)
	rd := &readerThenPark{data: stream, done: make(chan int, 1)}
	go ds.parseSourceCommand(bufioReader(rd))
	<-rd.done
	vfWaitFor(func() bool { return len(ds.sendBuf) == 0 })
	tick <- time.Time{}
	tick <- time.Time{}
	vfStub("github.com/alibaba/RedisShake/redis-shake/common.OpenRedisConn",
		func(target []string, authType, passwd string, isCluster bool, tls bool) (redigo.Conn, error) {
			return r, nil
		})
	runid, off, db, err := checkpoint.LoadCheckpoint(0, "s:1", []string{"t:1"}, "auth", "pw", "ckpt", false, false)
	vfAssert(err == nil, "the checkpoint written by a resumed run cannot be loaded (version or format refused)")
	vfAssert(runid == "rid-1", "the newest checkpoint of a resumed run carries no run id")
	vfAssert(off == loaded+int64(len(stream)) && db == 0, "the newest checkpoint is not (offset after the last command, database of the last command)")
	vfAssertTwin(err != nil, "twin")
}
