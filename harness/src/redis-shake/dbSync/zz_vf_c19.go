package dbSync

// C19 — configured passwords never appear in logs or status output.
//
//vf:job C19 quick VF_C19_SyncStart resume=0..1
//vf:job C19 quick VF_C19_StatusAndSafeOptions
//vf:job C19 quick VF_C19_Supervisor
//vf:job C19 quick VF_C19_AuthEcho resume=0..1
//vf:replayE C19 VF_C19_SyncStart VF_C19_StatusAndSafeOptions VF_C19_Supervisor VF_C19_AuthEcho
//vf:stub C19 log.*: every call is rendered with a model of fmt (%v/%s/%d/%+v traversal: top-level pointer-to-struct followed, nested pointers not, Error/String methods executed) and each rendered line is checked; sendPSyncCmd, checkpoint loading and the metric registry are stubbed (the run is cut after the start-up logging)
//vf:assume C19 information flow is decided per output string s: the two passwords are unconstrained symbolic 6-byte strings and a leak is reported iff for EVERY password value s contains it (an occurrence for one particular value only is a coincidence, not a flow)
//vf:outside C19 main (startup configuration echo: the package does not type-check), the HTTP layer, log file handling, third-party libraries' own logging

import (
	"errors"
	"net"
	"time"

	"github.com/alibaba/RedisShake/pkg/libs/io/pipe"
	utils "github.com/alibaba/RedisShake/redis-shake/common"
	conf "github.com/alibaba/RedisShake/redis-shake/configure"
	"github.com/alibaba/RedisShake/redis-shake/dbSync/slot"
	"github.com/alibaba/RedisShake/redis-shake/dbSync/slotsupervisor"
	redigo "github.com/garyburd/redigo/redis"
	"golang.org/x/sync/semaphore"
)

func vfSecrets() (string, string) {
	ps := vfStr("srcpw", 6)
	pt := vfStr("tgtpw", 6)
	vfSecret("source password", ps)
	vfSecret("target password", pt)
	conf.Options.SourcePasswordRaw = ps
	conf.Options.TargetPasswordRaw = pt
	conf.Options.SourcePasswordEncoding = ""
	conf.Options.TargetPasswordEncoding = ""
	return ps, pt
}

func vfNode(ps, pt string) *slot.SyncNode {
	return &slot.SyncNode{Id: 0, Source: "s:1", SourcePassword: ps, Target: []string{"t:1"}, TargetPassword: pt,
		SlotLeftBoundary: -1, SlotRightBoundary: -1, Slaves: []string{"s:2"}}
}

// sync start: constructor, retry bookkeeping, topology, start-up log lines, checkpoint load, failing PSYNC
func VF_C19_SyncStart() {
	vfStubEnv()
	ps, pt := vfSecrets()
	conf.Options.SourceType = "standalone"
	conf.Options.ResumeFromBreakPoint = vfParam("resume", 0) == 1
	conf.Options.Metric = false
	vfStub("github.com/alibaba/RedisShake/redis-shake/metric.AddMetric", func(id int) {})
	vfStub("github.com/alibaba/RedisShake/redis-shake/checkpoint.LoadCheckpoint",
		func(id int, src string, target []string, authType, passwd, name string, isCluster, tls bool) (string, int64, int, error) {
			return "rid", 10, 0, nil
		})
	calls := 0
	vfStub("(*github.com/alibaba/RedisShake/redis-shake/dbSync.DbSyncer).sendPSyncCmd",
		func(ds *DbSyncer, master, authType, passwd string, tls bool, runId string) (pipe.Reader, int64, bool, string, error) {
			calls++
			if calls > 1 {
				vfPark()
			}
			return nil, 0, false, "", errors.New("vf: cannot reach " + master)
		})
	ds := NewDbSyncer(vfNode(ps, pt), 9320, semaphore.NewWeighted(1))
	ds.Sync()
	vfAssert(vfLogCount() > 0, "no log line was produced (vacuous)")
	vfAssertTwin(calls == 0, "twin")
}

// status document and the masked configuration copy
func VF_C19_StatusAndSafeOptions() {
	vfStubEnv()
	ps, pt := vfSecrets()
	vfStub("github.com/alibaba/RedisShake/redis-shake/metric.AddMetric", func(id int) {})
	ds := NewDbSyncer(vfNode(ps, pt), 9320, semaphore.NewWeighted(1))
	ds.sendBuf = make(chan cmdDetail, 1)
	ds.delayChannel = make(chan *delayNode, 1)
	// the document depends on the syncer's history: first attempt, restarted once or several times
	ds.fullSyncRetryCounter = vfPick("retries", 4)
	ds.lastRetry = time.Unix(1600000000, 0)
	info := ds.GetExtraInfo()
	for k, v := range info {
		vfCheckNoSecret("DbSyncer.GetExtraInfo()["+k+"]", vfSprint(v))
	}
	// the REST layer and metric.print_log serve it as JSON, which does not go through String()
	vfCheckNoSecret("DbSyncer.GetExtraInfo() as JSON", vfJSON(info))
	safe := conf.GetSafeOptions()
	vfCheckNoSecret("conf.GetSafeOptions()", vfSprint(safe))
	vfCheckNoSecret("conf.GetSafeOptions() as JSON (startup echo, /conf)", vfJSON(safe))
	vfAssert(safe.SourcePasswordRaw == "***" && safe.TargetPasswordRaw == "***", "password fields of the shown configuration are not masked")
	vfAssert(vfEqStr(conf.Options.SourcePasswordRaw, ps), "masking changed the live configuration")
	_ = utils.CheckpointKey
	vfAssertTwin(len(info) == 0, "twin")
}

type vfInfoConn struct{ reply string }

func (c *vfInfoConn) Close() error                                            { return nil }
func (c *vfInfoConn) Err() error                                              { return nil }
func (c *vfInfoConn) Do(cmd string, args ...interface{}) (interface{}, error) { return c.reply, nil }
func (c *vfInfoConn) Send(string, ...interface{}) error                       { return nil }
func (c *vfInfoConn) Flush() error                                            { return nil }
func (c *vfInfoConn) Receive() (interface{}, error)                           { return nil, nil }

// topology discovery at sync start (cluster source): supervisor logging with every outcome
func VF_C19_Supervisor() {
	vfStubEnv()
	ps, pt := vfSecrets()
	conf.Options.SourceType = "cluster"
	outcome := vfPick("outcome", 3)
	vfStub("github.com/alibaba/RedisShake/redis-shake/dbSync/redisConnWrapper.DefaultRedisConnFactory",
		func(host, password string, tls bool) (redigo.Conn, error) {
			switch outcome {
			case 0:
				return &vfInfoConn{reply: "role:master\r\n"}, nil
			case 1:
				return nil, errors.New("vf: dial " + host + " failed")
			}
			return &vfInfoConn{reply: "# Replication\r\nx:1\r\n"}, nil
		})
	node := vfNode(ps, pt)
	res, err := slotsupervisor.New(*node).GetSlotState()
	if err == nil {
		vfAssert(vfEqStr(res.SourcePassword, ps) && vfEqStr(res.TargetPassword, pt), "descriptor lost its credentials")
	}
	if outcome != 0 {
		vfExpectAbort()
	}
	ds := &DbSyncer{id: 0, node: node}
	ds.updateSlotTopology()
	vfNoExpectAbort()
	vfAssert(outcome == 0, "sync continued although no master was found")
	vfAssertTwin(err != nil, "twin")
}

// a server that does not know the configured auth command answers with an error that echoes the
// command's arguments (stock Redis: "unknown command `adminauth`, with args beginning with: `<password>`");
// whatever the tool does with that reply, the password must not reach a log line
type vfEchoConn struct {
	replies [][]byte
	next    int
	written [][]byte
}

func (c *vfEchoConn) Read(p []byte) (int, error) {
	if c.next >= len(c.replies) {
		return 0, errors.New("vf: connection closed by peer")
	}
	r := c.replies[c.next]
	n := copy(p, r)
	if n < len(r) {
		c.replies[c.next] = r[n:]
	} else {
		c.next++
	}
	return n, nil
}
func (c *vfEchoConn) Write(p []byte) (int, error) {
	c.written = append(c.written, append([]byte{}, p...))
	return len(p), nil
}
func (c *vfEchoConn) Close() error                       { return nil }
func (c *vfEchoConn) LocalAddr() net.Addr                { return vfAddr{} }
func (c *vfEchoConn) RemoteAddr() net.Addr               { return vfAddr{} }
func (c *vfEchoConn) SetDeadline(t time.Time) error      { return nil }
func (c *vfEchoConn) SetReadDeadline(t time.Time) error  { return nil }
func (c *vfEchoConn) SetWriteDeadline(t time.Time) error { return nil }

func VF_C19_AuthEcho() {
	vfStubEnv()
	ps, pt := vfSecrets()
	for i := 0; i < len(ps); i++ {
		// lower-case letters: the reply is scanned for CR LF and upper-cased byte by byte, any other alphabet only multiplies the paths
		vfAssume(ps[i] >= 'a')
		vfAssume(ps[i] <= 'z')
	}
	conf.Options.SourceType = "standalone"
	conf.Options.SourceAuthType = "adminauth"
	conf.Options.SourceTLSEnable = false
	conf.Options.ResumeFromBreakPoint = vfParam("resume", 0) == 1
	conf.Options.Metric = false
	conf.Options.HttpProfile = 0
	vfStub("github.com/alibaba/RedisShake/redis-shake/metric.AddMetric", func(id int) {})
	vfStub("github.com/alibaba/RedisShake/redis-shake/checkpoint.LoadCheckpoint",
		func(id int, src string, target []string, authType, passwd, name string, isCluster, tls bool) (string, int64, int, error) {
			return "rid", 10, 0, nil
		})
	dials := 0
	vfStub("(*net.Dialer).Dial", func(d *net.Dialer, network, address string) (net.Conn, error) {
		dials++
		if dials > 1 {
			vfPark()
		}
		echo := append(append([]byte("-ERR unknown command `adminauth`, with args beginning with: `"), ps...), []byte("`, \r\n")...)
		return &vfEchoConn{replies: [][]byte{echo, []byte("+OK\r\n")}}, nil
	})
	ds := NewDbSyncer(vfNode(ps, pt), 9320, semaphore.NewWeighted(1))
	ds.Sync()
	vfAssert(vfLogCount() > 0, "no log line was produced (vacuous)")
	vfAssertTwin(dials == 0, "twin")
}
