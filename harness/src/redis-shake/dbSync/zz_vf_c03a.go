package dbSync

// C03 (source side) — parseSourceCommand: parse, filter and tag each command.
// Also serves C06 (incremental filter application) and C08 (offset tagging).
//
//vf:use tinyredis
//vf:job C03 quick VF_C03_Parse k=1 cfg=0..9
//vf:job C03 quick VF_C03_Parse k=2 cfg=0..9
//vf:job C03 thorough VF_C03_Parse k=3 cfg=0..9
//vf:job C06 quick VF_C03_Parse k=1 cfg=0..9
//vf:job C06 quick VF_C03_Parse k=2 cfg=8..9
//vf:job C06 thorough VF_C03_Parse k=2 cfg=0..9
//vf:job C08 quick VF_C03_Parse k=2 cfg=0,3
//vf:replayE C03 VF_C03_Parse
//vf:replayE C06 VF_C03_Parse
//vf:replayE C08 VF_C03_Parse
//vf:stub C03 metric.GetMetric: a private Metric object; latencymonitor.CalcLatency: no-op (statistics are outside the property)
//vf:stub C03 the source connection is a reader over the encoded command bytes that parks once they are consumed (a master that goes idle)
//vf:assume C03 every script starts with a SELECT (a master announces the database before the first propagated command)
//vf:assume C03 PING and sentinel hello publishes are don't-care (the statement does not say whether they are forwarded); a forwarded SELECT is never an error by itself: the oracle replays the forwarded commands with a current-database register and compares the applied (db, name, argv) sequence

import (
	"bufio"
	"strconv"
	"strings"

	"github.com/alibaba/RedisShake/pkg/redis"
	conf "github.com/alibaba/RedisShake/redis-shake/configure"
	"github.com/alibaba/RedisShake/redis-shake/dbSync/slot"
	"github.com/alibaba/RedisShake/redis-shake/metric"
)

type vfSrcCmd struct {
	argv [][]byte // argv[0] = name as sent by the master
}

var vfMetric = new(metric.Metric)

func vfStubEnv() {
	vfStub("github.com/alibaba/RedisShake/redis-shake/metric.GetMetric", func(id int) *metric.Metric { return vfMetric })
	vfStub("github.com/alibaba/RedisShake/redis-shake/dbSync/latencymonitor.CalcLatency", func(cmd string, args [][]byte, id int) {})
}

// vfTemplate builds the i-th command of the script from a template index
func vfTemplate(t int) vfSrcCmd {
	b := func(s string) []byte { return []byte(s) }
	switch t {
	case 0:
		return vfSrcCmd{[][]byte{b("select"), b(strconv.Itoa(vfPick("db", 3)))}}
	case 1:
		return vfSrcCmd{[][]byte{b("SELECT"), b(strconv.Itoa(vfPick("db", 3)))}}
	case 2:
		return vfSrcCmd{[][]byte{b("set"), vfBytes("key", 2), vfBytes("val", 1)}}
	case 3:
		return vfSrcCmd{[][]byte{b("mset"), vfBytes("key", 1), vfBytes("val", 1), vfBytes("key", 1), vfBytes("val", 1)}}
	case 4:
		return vfSrcCmd{[][]byte{b("DEL"), vfBytes("key", 1), vfBytes("key", 1)}}
	case 5:
		return vfSrcCmd{[][]byte{b("ping")}}
	case 6:
		return vfSrcCmd{[][]byte{b("multi")}}
	case 7:
		return vfSrcCmd{[][]byte{b("exec")}}
	case 8:
		return vfSrcCmd{[][]byte{b("publish"), b("__sentinel__:hello"), vfBytes("val", 1)}}
	case 9:
		return vfSrcCmd{[][]byte{b("publish"), vfBytes("chan", 1), vfBytes("val", 1)}}
	case 10:
		return vfSrcCmd{[][]byte{b("EVAL"), vfBytes("val", 2), b("0")}}
	case 11:
		return vfSrcCmd{[][]byte{b("script"), b("load"), vfBytes("val", 1)}}
	case 12:
		return vfSrcCmd{[][]byte{b("opinfo"), vfBytes("val", 1)}}
	}
	return vfSrcCmd{[][]byte{b("incrby"), vfBytes("key", 1), b("5")}}
}

const vfNTemplates = 14

type vfCfg struct {
	dbWhite, dbBlack     []string
	keyWhite, keyBlack   []string
	filterLua            bool
	targetDB, startDb    int
}

func vfConfig(cfg int) vfCfg {
	c := vfCfg{targetDB: -1}
	switch cfg {
	case 1:
		c.dbBlack = []string{"1"}
	case 2:
		c.dbWhite = []string{"1", "2"}
	case 3:
		c.keyBlack = []string{vfStr("prefix", 1)}
		c.startDb = 3
	case 4:
		c.keyWhite = []string{vfStr("prefix", 1)}
		c.filterLua = true
	case 5:
		c.targetDB = 2
	case 6:
		c.targetDB = 1
		c.dbBlack = []string{"2"}
		c.filterLua = true
	case 7:
		c.targetDB = 0
		c.startDb = 0
	case 8: // the fixed target database is itself a filtered source database
		c.targetDB = 2
		c.dbBlack = []string{"2"}
	case 9:
		c.targetDB = 0
		c.dbWhite = []string{"1"}
	}
	conf.Options.FilterDBWhitelist = c.dbWhite
	conf.Options.FilterDBBlacklist = c.dbBlack
	conf.Options.FilterKeyWhitelist = c.keyWhite
	conf.Options.FilterKeyBlacklist = c.keyBlack
	conf.Options.FilterLua = c.filterLua
	conf.Options.FilterSlot = nil
	conf.Options.TargetDB = c.targetDB
	conf.Options.Metric = false
	return c
}

// ---- specification of the filters (from the property statements)
func vfDbFiltered(c vfCfg, db int) bool {
	s := strconv.Itoa(db)
	if len(c.dbBlack) != 0 {
		for _, x := range c.dbBlack {
			if x == s {
				return true
			}
		}
		return false
	}
	if len(c.dbWhite) != 0 {
		for _, x := range c.dbWhite {
			if x == s {
				return false
			}
		}
		return true
	}
	return false
}

func vfKeyPasses(c vfCfg, key []byte) bool {
	if vfHasPrefix(string(key), "redis-shake-checkpoint") {
		return false
	}
	if len(c.keyBlack) != 0 {
		return vfNot(vfHasPrefix(string(key), c.keyBlack[0]))
	}
	if len(c.keyWhite) != 0 {
		return vfHasPrefix(string(key), c.keyWhite[0])
	}
	return true
}

// key positions (argv without the name) of the templates that are key-addressed
func vfKeySpec(name string) (first, last, step int, ok bool) {
	switch name {
	case "set", "incrby":
		return 0, 0, 1, true
	case "mset":
		return 0, -1, 2, true
	case "del":
		return 0, -1, 1, true
	}
	return 0, 0, 0, false
}

type vfExpect struct {
	db   int
	name string
	args [][]byte
	off  int64
}

type readerThenPark struct {
	data []byte
	pos  int
	done chan int
}

func (r *readerThenPark) Read(p []byte) (int, error) {
	if r.pos >= len(r.data) {
		r.done <- 1
		vfPark()
	}
	n := copy(p, r.data[r.pos:])
	r.pos += n
	return n, nil
}

func VF_C03_Parse() {
	k := vfParam("k", 2)
	cfg := vfConfig(vfParam("cfg", 0))
	vfStubEnv()
	start := vfInt64("start")
	vfAssume(start >= 0)
	vfAssume(start < 1<<40)
	// script
	var script []vfSrcCmd
	var stream []byte
	var ends []int64
	for i := 0; i < k+1; i++ {
		// a master always announces the database before the first command of a stream
		var c vfSrcCmd
		if i == 0 {
			c = vfTemplate(0)
		} else {
			c = vfTemplate(vfPick("tmpl", vfNTemplates))
		}
		script = append(script, c)
		enc, err := redis.EncodeToBytes(redis.ChangeArgsToResp(c.argv[0], c.argv[1:]))
		if err != nil {
			vfFail("encode")
		}
		stream = append(stream, enc...)
		ends = append(ends, int64(len(stream)))
	}
	// specification: which commands survive, with which argv, in which database
	var want []vfExpect
	cur := 0
	if cfg.startDb != 0 {
		cur = cfg.startDb
	}
	bypass := false
	for i, c := range script {
		name := strings.ToLower(string(c.argv[0]))
		args := c.argv[1:]
		if name == "select" {
			n, _ := strconv.Atoi(string(args[0]))
			cur = n
			bypass = vfDbFiltered(cfg, n)
			continue
		}
		if name == "ping" || (name == "publish" && strings.EqualFold(string(args[0]), "__sentinel__:hello")) {
			continue // don't-care
		}
		if name == "multi" || name == "exec" {
			continue // markers are never applied (checked on the sender side); here: may be forwarded as markers
		}
		if bypass || name == "opinfo" {
			continue
		}
		if cfg.filterLua && (name == "eval" || name == "evalsha" || name == "script") {
			continue
		}
		outArgs := args
		if first, last, step, ok := vfKeySpec(name); ok && (len(cfg.keyBlack) != 0 || len(cfg.keyWhite) != 0) {
			hi := last
			if last < 0 {
				hi = len(args) + last
				if step == 2 {
					hi = len(args) - 2
				}
			}
			var kept [][]byte
			kept = append(kept, args[:first]...)
			n := 0
			for p := first; p <= hi; p += step {
				if vfKeyPasses(cfg, args[p]) {
					kept = append(kept, args[p:p+step]...)
					n++
				}
			}
			kept = append(kept, args[hi+step:]...)
			if n == 0 {
				continue
			}
			outArgs = kept
		}
		db := cur
		if cfg.targetDB != -1 {
			db = cfg.targetDB
		}
		want = append(want, vfExpect{db: db, name: name, args: outArgs, off: start + ends[i]})
	}

	// run the real parser
	ds := &DbSyncer{id: 0, node: &slot.SyncNode{Source: "s:1"}, sendBuf: make(chan cmdDetail, 4*k+4), checkpointName: "ckpt"}
	ds.startDbId = cfg.startDb
	ds.sourceOffset = start
	rd := &readerThenPark{data: stream, done: make(chan int, 1)}
	go ds.parseSourceCommand(bufio.NewReaderSize(rd, 4096))
	<-rd.done

	// drain and replay with a current-database register (a fresh target connection is in db 0)
	var got []vfExpect
	tcur := 0
	for len(ds.sendBuf) > 0 {
		it := <-ds.sendBuf
		name := strings.ToLower(it.Cmd)
		var args [][]byte
		for _, a := range it.Args {
			args = append(args, a.([]byte))
		}
		if name == "select" {
			n, err := strconv.Atoi(string(args[0]))
			vfAssert(err == nil, "forwarded SELECT with a non-numeric database")
			tcur = n
			continue
		}
		if name == "ping" || (name == "publish" && len(args) > 0 && strings.EqualFold(string(args[0]), "__sentinel__:hello")) {
			continue
		}
		if name == "multi" || name == "exec" {
			continue
		}
		got = append(got, vfExpect{db: tcur, name: name, args: args, off: it.Offset})
	}
	vfObserve("nwant", len(want))
	vfObserve("ngot", len(got))
	vfAssert(len(got) == len(want), "the forwarded commands are not exactly the ones that survive the filters")
	if len(got) != len(want) {
		return
	}
	for i := range want {
		g, w := got[i], want[i]
		vfAssert(g.name == w.name, "forwarded command name differs / order changed")
		vfAssertK(g.db == w.db, "command would be applied in a database other than the source's (or the configured target database)", "C03-targetdb-first-select", cfg.targetDB > 0)
		same := len(g.args) == len(w.args)
		for j := 0; same && j < len(w.args); j++ {
			same = vfAnd(same, len(g.args[j]) == len(w.args[j]) && vfEqBytes(g.args[j], w.args[j]))
		}
		vfAssert(same, "forwarded arguments are not byte-identical to the surviving ones")
		vfAssert(g.off == w.off, "command offset is not start offset + bytes consumed up to the end of the command")
	}
	vfAssertTwin(len(got) == 0, "twin")
}

func bufioReader(r *readerThenPark) *bufio.Reader { return bufio.NewReaderSize(r, 4096) }
