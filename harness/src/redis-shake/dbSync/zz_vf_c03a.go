package dbSync

// C03 (source side) — parseSourceCommand: parse, filter and tag each command.
// Also serves C06 (incremental filter application) and C08 (offset tagging).
//
//vf:use tinyredis
//vf:use cmdstream
//vf:job C03 quick VF_C03_Parse k=1 cfg=0..9
//vf:job C03 quick VF_C03_Parse k=2 cfg=0..9
//vf:job C03 thorough VF_C03_Parse k=3 cfg=0..9 alpha=1
//vf:job C06 quick VF_C03_Parse k=1 cfg=0..9
//vf:job C06 quick VF_C03_Parse k=2 cfg=8..9
//vf:job C06 thorough VF_C03_Parse k=2 cfg=0..9
//vf:job C08 quick VF_C03_Parse k=2 cfg=0,3
//vf:job C08 quick VF_C03_Parse k=2 cfg=0 nl=1..2
//vf:job C04 quick VF_C03_Parse k=1 cfg=0 nl=1
//vf:replayE C03 VF_C03_Parse
//vf:replayE C06 VF_C03_Parse
//vf:replayE C08 VF_C03_Parse
//vf:replayE C04 VF_C03_Parse
//vf:outside C03 scripts of three commands over the full 14-template alphabet (2 744 × picks per configuration: path budget); the thorough tier runs three commands over a 6-template alphabet (select, set, DEL, multi, exec, EVAL)
//vf:stub C03 metric.GetMetric: a private Metric object; latencymonitor.CalcLatency: no-op (statistics are outside the property)
//vf:stub C03 the source connection is a reader over the encoded command bytes that parks once they are consumed (a master that goes idle)
//vf:assume C03 every script starts with a SELECT (a master announces the database before the first propagated command)
//vf:assume C03 PING and sentinel hello publishes are don't-care (the statement does not say whether they are forwarded); a forwarded SELECT is never an error by itself: the oracle replays the forwarded commands with a current-database register and compares the applied (db, name, argv) sequence

import (
	"bufio"
	"strconv"
	"strings"

	"github.com/alibaba/RedisShake/pkg/redis"
	"github.com/alibaba/RedisShake/redis-shake/dbSync/slot"
	"github.com/alibaba/RedisShake/redis-shake/metric"
)

var vfMetric = new(metric.Metric)

func vfStubEnv() {
	vfStub("github.com/alibaba/RedisShake/redis-shake/metric.GetMetric", func(id int) *metric.Metric { return vfMetric })
	vfStub("github.com/alibaba/RedisShake/redis-shake/dbSync/latencymonitor.CalcLatency", func(cmd string, args [][]byte, id int) {})
}

func VF_C03_Parse() {
	k := vfParam("k", 2)
	cfg := vfConfig(vfParam("cfg", 0))
	vfStubEnv()
	start := vfInt64("start")
	vfAssume(start >= 0)
	vfAssume(start < 1<<40)
	// script
	var script []vfSrcCmd
	var stream []byte
	var ends []int64
	for i := 0; i < k+1; i++ {
		// a master always announces the database before the first command of a stream
		var c vfSrcCmd
		if i == 0 {
			c = vfTemplate(0)
		} else {
			if vfParam("alpha", 0) == 1 {
				// reduced alphabet for longer scripts: select, set, DEL, multi, exec, EVAL
				c = vfTemplate([]int{0, 2, 4, 6, 7, 10}[vfPick("tmpl", 6)])
			} else {
				c = vfTemplate(vfPick("tmpl", vfNTemplates))
			}
		}
		script = append(script, c)
		enc, err := redis.EncodeToBytes(redis.ChangeArgsToResp(c.argv[0], c.argv[1:]))
		if err != nil {
			vfFail("encode")
		}
		// keep-alive newlines a master sends between commands are part of the replication offset
		if i > 0 {
			for j := 0; j < vfParam("nl", 0); j++ {
				stream = append(stream, '\n')
			}
		}
		stream = append(stream, enc...)
		ends = append(ends, int64(len(stream)))
	}
	want := vfWantOf(cfg, script, ends, start)

	// run the real parser
	ds := &DbSyncer{id: 0, node: &slot.SyncNode{Source: "s:1"}, sendBuf: make(chan cmdDetail, 4*k+4), checkpointName: "ckpt"}
	ds.startDbId = cfg.startDb
	ds.sourceOffset = start
	rd := &readerThenPark{data: stream, done: make(chan int, 1)}
	go ds.parseSourceCommand(bufio.NewReaderSize(rd, 4096))
	<-rd.done

	// drain and replay with a current-database register (a fresh target connection is in db 0)
	var got []vfExpect
	tcur := 0
	for len(ds.sendBuf) > 0 {
		it := <-ds.sendBuf
		name := strings.ToLower(it.Cmd)
		var args [][]byte
		for _, a := range it.Args {
			args = append(args, a.([]byte))
		}
		if name == "select" {
			n, err := strconv.Atoi(string(args[0]))
			vfAssert(err == nil, "forwarded SELECT with a non-numeric database")
			tcur = n
			continue
		}
		if name == "ping" || (name == "publish" && len(args) > 0 && strings.EqualFold(string(args[0]), "__sentinel__:hello")) {
			continue
		}
		if name == "multi" || name == "exec" {
			continue
		}
		got = append(got, vfExpect{db: tcur, name: name, args: args, off: it.Offset})
	}
	vfObserve("nwant", len(want))
	vfObserve("ngot", len(got))
	vfAssert(len(got) == len(want), "the forwarded commands are not exactly the ones that survive the filters")
	if len(got) != len(want) {
		return
	}
	for i := range want {
		g, w := got[i], want[i]
		vfAssert(g.name == w.name, "forwarded command name differs / order changed")
		vfAssertK(g.db == w.db, "command would be applied in a database other than the source's (or the configured target database)", "C03-targetdb-first-select", cfg.targetDB > 0)
		same := len(g.args) == len(w.args)
		for j := 0; same && j < len(w.args); j++ {
			same = vfAnd(same, len(g.args[j]) == len(w.args[j]) && vfEqBytes(g.args[j], w.args[j]))
		}
		vfAssert(same, "forwarded arguments are not byte-identical to the surviving ones")
		vfAssert(g.off == w.off, "command offset is not start offset + bytes consumed up to the end of the command")
	}
	vfAssertTwin(len(got) == 0, "twin")
}

func bufioReader(r *readerThenPark) *bufio.Reader { return bufio.NewReaderSize(r, 4096) }
