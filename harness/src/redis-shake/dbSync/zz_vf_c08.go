package dbSync

// C08 — offsets reported to the source are exactly 'start offset + bytes consumed';
// C05 — RDB / command-stream hand-off through runIncrementalSync and the pipe.
//
//vf:job C08 quick VF_C08_PipeCopy reads=1..3 waitfull=0..1
//vf:job C08 quick VF_C08_Reconnect nrdb=0..1 c08=1
//vf:job C08 quick VF_C08_AckAfterRdb nrdb=1..3
//vf:job C08 quick VF_C08_ReconnectRefused reply=0..2
//vf:replayE C08 VF_C08_AckAfterRdb
//vf:job C05 quick VF_C08_Reconnect nrdb=0..3
//vf:replayE C08 VF_C08_PipeCopy VF_C08_Reconnect VF_C08_ReconnectRefused
//vf:replayE C05 VF_C08_Reconnect
//vf:opt C08 preempt=1 thorough_preempt=2
//vf:stub C08 source connection: scripted net.Conn (reads of symbolic size, then a read error = connection drop); time.NewTicker: channel fed by the harness between reads (every position of the 1 s tick relative to the traffic); utils.OpenNetConnSoft/AuthPassword/SendPSyncListeningPort: scripted second connection; metric.GetMetric: private object
//vf:outside C08 wall-clock length of a second; the data race between the acknowledgement goroutine and the parser on the offset field (memory-model level)

import (
	"bufio"
	"bytes"
	"errors"
	"net"
	"strconv"
	"strings"
	"time"

	"github.com/alibaba/RedisShake/pkg/libs/io/pipe"
	conf "github.com/alibaba/RedisShake/redis-shake/configure"
	"github.com/alibaba/RedisShake/redis-shake/dbSync/slot"
)

type vfAddr struct{}

func (vfAddr) Network() string { return "tcp" }
func (vfAddr) String() string  { return "s:1" }

// scripted connection: chunks of data, optional tick before each chunk, then an error
type vfNetConn struct {
	chunks  [][]byte
	tickBefore []bool
	next    int
	tick    chan time.Time
	written [][]byte
	closed  int
	nacks   func() int
	atEnd   func()
	park    bool
}

func (c *vfNetConn) Read(p []byte) (int, error) {
	if c.next < len(c.tickBefore) && c.tickBefore[c.next] {
		c.tickBefore[c.next] = false
		before := c.nacks()
		c.tick <- time.Time{}
		vfWaitFor(func() bool { return c.nacks() > before })
	}
	if c.next >= len(c.chunks) {
		if c.atEnd != nil {
			c.atEnd()
		}
		if c.park {
			vfPark()
		}
		return 0, errors.New("vf: connection reset by peer")
	}
	ch := c.chunks[c.next]
	n := copy(p, ch)
	if n < len(ch) {
		c.chunks[c.next] = ch[n:]
	} else {
		c.next++
	}
	return n, nil
}
func (c *vfNetConn) Write(p []byte) (int, error) {
	c.written = append(c.written, append([]byte{}, p...))
	return len(p), nil
}
func (c *vfNetConn) Close() error                       { c.closed++; return nil }
func (c *vfNetConn) LocalAddr() net.Addr                { return vfAddr{} }
func (c *vfNetConn) RemoteAddr() net.Addr               { return vfAddr{} }
func (c *vfNetConn) SetDeadline(t time.Time) error      { return nil }
func (c *vfNetConn) SetReadDeadline(t time.Time) error  { return nil }
func (c *vfNetConn) SetWriteDeadline(t time.Time) error { return nil }

// vfAckOffsets parses the REPLCONF ACK <o> commands written to the connection
func vfAckOffsets(written [][]byte) []int64 {
	var out []int64
	for _, w := range written {
		s := string(w)
		if !strings.Contains(strings.ToLower(s), "replconf") {
			continue
		}
		// *3 $8 replconf $3 ack $n <o>
		parts := strings.Split(strings.TrimRight(s, "\r\n"), "\r\n")
		o, err := strconv.ParseInt(parts[len(parts)-1], 10, 64)
		if err != nil {
			vfFail("unparsable acknowledgement")
		}
		out = append(out, o)
	}
	return out
}

func VF_C08_PipeCopy() {
	reads := vfParam("reads", 2)
	waitFull := vfParam("waitfull", 1) == 1
	vfStubEnv()
	tick := make(chan time.Time)
	vfStub("time.NewTicker", func(d time.Duration) *time.Ticker { return &time.Ticker{C: tick} })
	start := int64(1000)
	c := &vfNetConn{tick: tick}
	total := 0
	var all []byte
	var copiedAtTick []int
	for i := 0; i < reads; i++ {
		n := 1 + vfPick("len", 2)
		ch := vfBytes("data", n)
		tb := vfPick("tick", 2) == 1
		if tb {
			copiedAtTick = append(copiedAtTick, total)
		}
		c.chunks = append(c.chunks, ch)
		c.tickBefore = append(c.tickBefore, tb)
		all = append(all, ch...)
		total += n
	}
	// one more optional tick before the drop
	if vfPick("lasttick", 2) == 1 {
		c.tickBefore = append(c.tickBefore, true)
		copiedAtTick = append(copiedAtTick, total)
	}
	c.nacks = func() int { return len(c.written) }
	ds := &DbSyncer{id: 0, node: &slot.SyncNode{Source: "s:1"}, WaitFull: make(chan struct{})}
	ds.sourceOffset = start
	if waitFull {
		close(ds.WaitFull)
	}
	br := bufio.NewReaderSize(c, 64)
	bw := bufio.NewWriterSize(c, 64)
	var sink bytes.Buffer
	n, err := ds.pSyncPipeCopy(c, br, bw, &sink)
	vfAssert(err != nil, "copy loop must end with the read error")
	vfAssert(n == int64(total), "copy loop reports a byte count other than the bytes received")
	vfAssert(len(sink.Bytes()) == total && vfEqBytes(sink.Bytes(), all), "bytes forwarded to the pipe are not the bytes received, in order")
	acks := vfAckOffsets(c.written)
	vfAssert(len(acks) == len(copiedAtTick), "one acknowledgement per tick")
	if len(acks) != len(copiedAtTick) {
		return
	}
	prev := int64(-1)
	cum := int64(0)
	for i, o := range acks {
		cum += int64(copiedAtTick[i])
		if !waitFull {
			vfAssert(o == 0, "before the full sync is done the acknowledged offset must be 0")
			continue
		}
		want := start + int64(copiedAtTick[i])
		// known finding: from the second acknowledgement on the cumulative byte count is added again
		// (guard: exactly the value the known bookkeeping produces — the cumulative counts summed per tick)
		vfAssertK(o == want, "acknowledged offset is not start offset + bytes received so far", "C08-ack-cumulative", vfAnd(i >= 1, o == start+cum))
		vfAssert(o >= prev, "acknowledged offsets decrease")
		prev = o
	}
	vfAssertTwin(len(acks) == 0, "twin")
}

// full hand-off and reconnect: RDB bytes, then commands, a drop, PSYNC runid offset+1, more commands
func VF_C08_Reconnect() {
	nrdb := vfParam("nrdb", 0)
	vfStubEnv()
	tick := make(chan time.Time)
	vfStub("time.NewTicker", func(d time.Duration) *time.Ticker { return &time.Ticker{C: tick} })
	conf.Options.HttpProfile = 0
	start := int64(500)
	rdb := vfBytes("rdb", nrdb)
	cmd1 := vfBytes("cmd1", 2)
	cmd2 := vfBytes("cmd2", 2)
	c1 := &vfNetConn{tick: tick}
	if nrdb > 0 {
		// the RDB and the first command bytes may arrive in one segment or in two
		if vfPick("seg", 2) == 0 {
			c1.chunks = [][]byte{append(append([]byte{}, rdb...), cmd1...)}
		} else {
			c1.chunks = [][]byte{rdb, cmd1}
		}
	} else {
		c1.chunks = [][]byte{cmd1}
	}
	c2 := &vfNetConn{tick: tick, chunks: [][]byte{append([]byte("+CONTINUE\r\n"), cmd2...)}, park: true}
	opened := 0
	vfStub("github.com/alibaba/RedisShake/redis-shake/common.OpenNetConnSoft", func(target, authType, passwd string, tls bool) net.Conn {
		opened++
		if opened > 1 {
			vfPark()
		}
		return c2
	})
	vfStub("github.com/alibaba/RedisShake/redis-shake/common.AuthPassword", func(c net.Conn, authType, passwd string) error { return nil })
	vfStub("github.com/alibaba/RedisShake/redis-shake/common.SendPSyncListeningPort", func(c net.Conn, port int) {})
	ds := &DbSyncer{id: 0, node: &slot.SyncNode{Source: "s:1"}, WaitFull: make(chan struct{})}
	close(ds.WaitFull)
	ds.sourceOffset = start
	piper, pipew := pipe.NewSize(1)
	br := bufio.NewReaderSize(c1, 64)
	bw := bufio.NewWriterSize(c1, 64)
	go ds.runIncrementalSync(c1, br, bw, nrdb, "run-1", "s:1", "auth", "pw", false, pipew, true)
	// consumer: exactly nrdb RDB bytes, then the command stream, continuous across the reconnect
	want := append(append(append([]byte{}, rdb...), cmd1...), cmd2...)
	got := make([]byte, 0, len(want))
	buf := make([]byte, 8)
	for len(got) < len(want) {
		n, err := piper.Read(buf)
		vfAssert(err == nil, "pipe closed before the stream was delivered")
		if err != nil {
			return
		}
		got = append(got, buf[:n]...)
	}
	vfAssert(len(got) == len(want) && vfEqBytes(got, want), "RDB consumer / command parser do not see exactly the bytes sent, in order, across the hand-off and the reconnect")
	// the request on the second connection
	var req string
	for _, w := range c2.written {
		if strings.Contains(strings.ToLower(string(w)), "psync") {
			req = string(w)
		}
	}
	parts := strings.Split(strings.TrimRight(req, "\r\n"), "\r\n")
	ok := len(parts) >= 7
	vfAssert(ok, "no PSYNC request on the re-established connection")
	if ok {
		o, _ := strconv.ParseInt(parts[len(parts)-1], 10, 64)
		vfAssert(parts[4] == "run-1", "PSYNC after a reconnect does not name the source's run id")
		// known finding: the remembered offset is only advanced by acknowledgement ticks
		if vfParam("c08", 0) == 1 {
			// (guard: exactly the stale value — no tick happened in this run, so the remembered offset is still the start offset)
			vfAssertK(o == start+int64(len(cmd1))+1, "PSYNC after a reconnect does not ask for start offset + bytes received + 1", "C08-reconnect-offset", o == start+1)
		}
	}
	vfAssertTwin(len(got) == 0, "twin")
}

// full sync followed by traffic: the first acknowledgement counts exactly the stream bytes that
// followed the RDB, whatever the segmentation (RDB tail and first commands in one segment or not)
func VF_C08_AckAfterRdb() {
	nrdb := vfParam("nrdb", 1)
	vfStubEnv()
	tick := make(chan time.Time)
	vfStub("time.NewTicker", func(d time.Duration) *time.Ticker { return &time.Ticker{C: tick} })
	start := int64(700)
	rdb := vfBytes("rdb", nrdb)
	cmd1 := vfBytes("cmd1", 3)
	c1 := &vfNetConn{tick: tick, park: true}
	switch vfPick("seg", 3) {
	case 0:
		c1.chunks = [][]byte{append(append([]byte{}, rdb...), cmd1...)}
	case 1:
		c1.chunks = [][]byte{rdb, cmd1}
	default:
		c1.chunks = [][]byte{append(append([]byte{}, rdb...), cmd1[:1]...), cmd1[1:]}
	}
	// one tick once everything has arrived
	c1.tickBefore = make([]bool, len(c1.chunks)+1)
	c1.tickBefore[len(c1.chunks)] = true
	c1.nacks = func() int { return len(vfAckOffsets(c1.written)) }
	ds := &DbSyncer{id: 0, node: &slot.SyncNode{Source: "s:1"}, WaitFull: make(chan struct{})}
	close(ds.WaitFull)
	ds.sourceOffset = start
	piper, pipew := pipe.NewSize(1)
	br := bufio.NewReaderSize(c1, 64)
	bw := bufio.NewWriterSize(c1, 64)
	go ds.runIncrementalSync(c1, br, bw, nrdb, "run-1", "s:1", "auth", "pw", false, pipew, true)
	want := append(append([]byte{}, rdb...), cmd1...)
	got := make([]byte, 0, len(want))
	buf := make([]byte, 8)
	for len(got) < len(want) {
		n, err := piper.Read(buf)
		if err != nil {
			vfFail("pipe closed early")
		}
		got = append(got, buf[:n]...)
	}
	vfAssert(vfEqBytes(got, want), "hand-off bytes")
	vfWaitFor(func() bool { return len(vfAckOffsets(c1.written)) >= 1 })
	acks := vfAckOffsets(c1.written)
	vfAssert(acks[0] == start+int64(len(cmd1)), "first acknowledgement after the full sync is not start offset + stream bytes received (RDB bytes must not count, stream bytes must all count)")
	vfAssertTwin(acks[0] == 0, "twin")
}

// a reconnect whose PSYNC is refused (error reply, unexpected reply, or a drop during the handshake),
// then one that is accepted: nothing was received in between, so both requests name the same offset,
// and the stream continues without a gap
func VF_C08_ReconnectRefused() {
	vfStubEnv()
	tick := make(chan time.Time)
	vfStub("time.NewTicker", func(d time.Duration) *time.Ticker { return &time.Ticker{C: tick} })
	conf.Options.HttpProfile = 0
	start := int64(500)
	cmd1 := vfBytes("cmd1", 2)
	cmd2 := vfBytes("cmd2", 2)
	c1 := &vfNetConn{tick: tick, chunks: [][]byte{cmd1}}
	refusal := [][]byte{[]byte("-LOADING Redis is loading the dataset in memory\r\n"), []byte("+CONTINUE 8371b4fb1155b71f4a04d3e1bc3e18c4a990aeeb\r\n"), nil}[vfParam("reply", 0)]
	c2 := &vfNetConn{tick: tick}
	if refusal != nil {
		c2.chunks = [][]byte{refusal}
	}
	c3 := &vfNetConn{tick: tick, chunks: [][]byte{append([]byte("+CONTINUE\r\n"), cmd2...)}, park: true}
	opened := 0
	vfStub("github.com/alibaba/RedisShake/redis-shake/common.OpenNetConnSoft", func(target, authType, passwd string, tls bool) net.Conn {
		opened++
		switch opened {
		case 1:
			return c2
		case 2:
			return c3
		}
		vfPark()
		return nil
	})
	vfStub("github.com/alibaba/RedisShake/redis-shake/common.AuthPassword", func(c net.Conn, authType, passwd string) error { return nil })
	vfStub("github.com/alibaba/RedisShake/redis-shake/common.SendPSyncListeningPort", func(c net.Conn, port int) {})
	ds := &DbSyncer{id: 0, node: &slot.SyncNode{Source: "s:1"}, WaitFull: make(chan struct{})}
	close(ds.WaitFull)
	ds.sourceOffset = start
	piper, pipew := pipe.NewSize(1)
	br := bufio.NewReaderSize(c1, 64)
	bw := bufio.NewWriterSize(c1, 64)
	go ds.runIncrementalSync(c1, br, bw, 0, "run-1", "s:1", "auth", "pw", false, pipew, true)
	want := append(append([]byte{}, cmd1...), cmd2...)
	got := make([]byte, 0, len(want))
	buf := make([]byte, 8)
	for len(got) < len(want) {
		n, err := piper.Read(buf)
		vfAssert(err == nil, "pipe closed before the stream was delivered")
		if err != nil {
			return
		}
		got = append(got, buf[:n]...)
	}
	vfAssert(vfEqBytes(got, want), "the command parser does not see exactly the bytes sent, in order, across the refused and the accepted reconnect")
	psyncOffset := func(c *vfNetConn) (int64, bool) {
		for _, w := range c.written {
			if strings.Contains(strings.ToLower(string(w)), "psync") {
				parts := strings.Split(strings.TrimRight(string(w), "\r\n"), "\r\n")
				if len(parts) >= 7 {
					o, err := strconv.ParseInt(parts[len(parts)-1], 10, 64)
					return o, err == nil && parts[4] == "run-1"
				}
			}
		}
		return 0, false
	}
	o2, ok2 := psyncOffset(c2)
	o3, ok3 := psyncOffset(c3)
	vfAssert(ok2 && ok3, "no PSYNC request naming the run id on a re-established connection")
	if ok2 && ok3 {
		vfAssert(o3 == o2, "a refused PSYNC changed the offset that the next reconnect asks for although nothing was received in between")
	}
	vfAssertTwin(len(got) == 0, "twin")
}
