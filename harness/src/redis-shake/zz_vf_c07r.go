package run

// C07 — restore mode: every non-filtered key exactly once, right database, failures reported.
// Also serves C06 (restore-mode filter application).
//
//vf:use tinyredis
//vf:job C07 quick VF_C07_RestoreRDB m=1..2 par=1..2 cfg=0..3
//vf:job C06 quick VF_C07_RestoreRDB m=2 par=1 cfg=0..4
//vf:replayE C07 VF_C07_RestoreRDB
//vf:replayE C06 VF_C07_RestoreRDB

import (
	"bufio"
	"errors"
	"strconv"
	"time"

	"github.com/alibaba/RedisShake/pkg/libs/atomic2"
	"github.com/alibaba/RedisShake/pkg/rdb"
	conf "github.com/alibaba/RedisShake/redis-shake/configure"
	redigo "github.com/garyburd/redigo/redis"
)

type vfRRec struct {
	db    int
	entry *rdb.BinEntry
}

func vfRunDbFiltered(black []string, db int) bool {
	for _, x := range black {
		if x == strconv.Itoa(db) {
			return true
		}
	}
	return false
}

func VF_C07_RestoreRDB() {
	m := vfParam("m", 2)
	par := vfParam("par", 1)
	cfgIx := vfParam("cfg", 0)
	targetDB := -1
	var dbBlack, keyBlack, keyWhite []string
	switch cfgIx {
	case 1:
		targetDB = 2
	case 2:
		dbBlack = []string{"2"}
	case 3:
		keyBlack = []string{vfStr("prefix", 1)}
	case 4:
		keyWhite = []string{vfStr("prefix", 1)}
	}
	conf.Options.FilterDBWhitelist, conf.Options.FilterDBBlacklist = nil, dbBlack
	conf.Options.FilterKeyWhitelist, conf.Options.FilterKeyBlacklist = keyWhite, keyBlack
	conf.Options.FilterSlot = nil
	conf.Options.FilterLua = false
	conf.Options.TargetDB = targetDB
	conf.Options.Parallel = par
	conf.Options.TargetType = "standalone"
	entries := make([]*rdb.BinEntry, m)
	failIx := vfPick("fail", m+1) - 1
	luaIx := vfPick("lua", m+1) - 1
	for i := range entries {
		e := &rdb.BinEntry{DB: uint32(vfPick("db", 2) * 2), Key: vfBytes("key", 1), Type: 0, Value: []byte{byte(i)}}
		if i == luaIx {
			e.Type, e.Key = rdb.RdbFlagAUX, []byte("lua")
		}
		entries[i] = e
	}
	pipe := make(chan *rdb.BinEntry, m)
	for _, e := range entries {
		pipe <- e
	}
	close(pipe)
	vfStub("github.com/alibaba/RedisShake/redis-shake/common.NewRDBLoader", func(r *bufio.Reader, rb *atomic2.Int64, size int) chan *rdb.BinEntry { return pipe })
	vfStub("github.com/alibaba/RedisShake/redis-shake/common.OpenRedisConn", func(target []string, authType, passwd string, isCluster bool, tls bool) (redigo.Conn, error) {
		return vfNewRedis(), nil
	})
	var recs []vfRRec
	failed := false
	vfStub("github.com/alibaba/RedisShake/redis-shake/common.RestoreRdbEntry", func(c redigo.Conn, e *rdb.BinEntry) error {
		recs = append(recs, vfRRec{db: c.(*vfRedis).cur, entry: e})
		if failIx >= 0 && entries[failIx] == e {
			failed = true
			return errors.New("vf: restore failed")
		}
		return nil
	})
	vfStub("time.After", func(d time.Duration) <-chan time.Time { return make(chan time.Time) })
	// a failed restore must stop the run with a reported failure (abort), never finish as a success
	vfExpectAbort()
	dr := &dbRestorer{id: 0, target: []string{"t:1"}}
	dr.restoreRDBFile(nil, dr.target, "auth", "pw", 1, false)
	vfNoExpectAbort()
	vfAssert(!failed, "a restore failed but restore mode finished as a success")
	vfAssert(len(pipe) == 0, "restore mode returned before every entry of the RDB was processed")
	for _, e := range entries {
		cnt := 0
		var rec vfRRec
		for _, r := range recs {
			if r.entry == e {
				cnt++
				rec = r
			}
		}
		isLua := e.Type == rdb.RdbFlagAUX
		pass := !vfRunDbFiltered(dbBlack, int(e.DB))
		if !isLua {
			if keyBlack != nil {
				pass = pass && !vfHasPrefix(string(e.Key), keyBlack[0])
			}
			if keyWhite != nil {
				pass = pass && vfHasPrefix(string(e.Key), keyWhite[0])
			}
		}
		if pass {
			if isLua {
				vfAssert(cnt == 1, "a Lua script was dropped by a key filter although filter.lua is off (restore mode)")
			} else {
				vfAssert(cnt == 1, "a key that passes the filters was not restored exactly once (restore mode)")
			}
			if cnt == 1 {
				want := int(e.DB)
				if targetDB != -1 {
					want = targetDB
				}
				vfAssert(rec.db == want, "entry restored while another database was selected (restore mode)")
			}
		} else {
			vfAssert(cnt == 0, "a filtered entry reached the target (restore mode)")
		}
	}
	vfAssertTwin(len(recs) == 0, "twin")
}
