package utils

// C02 — restoring an entry leaves the target key equal to the source key.
//
//vf:use tinyredis
//vf:use compact
//vf:job C02 quick VF_C02_Restore ver=0..5 exp=0..2
//vf:job C02 quick VF_C02_BigKey t=0..13 n=1
//vf:job C02 quick VF_C02_BigKey t=0..6 n=2
//vf:job C02 quick VF_C02_BigKey t=11..12 n=2
//vf:job C02 quick VF_C02_BigKey t=14..15 n=1
//vf:job C02 thorough VF_C02_BigKey t=7..10 n=2 fresh=1
//vf:job C02 thorough VF_C02_BigKey t=13 n=2
//vf:job C02 quick VF_C02_BigKey t=2 n=2 exp=0,2
//vf:job C02 quick VF_C02_BigKey t=0,2,6 n=1 exp=1..2 shift=1..2
//vf:job C02 quick VF_C02_QuicklistRoute n=1..2
//vf:job C02 quick VF_C02_QuicklistRoute n=1 shift=1..2
//vf:job C02 quick VF_C02_ChunkedHash split=0 shift=1..2
//vf:job C02 quick VF_C02_BadFormat t=0..3 shift=1..2
//vf:job C02 quick VF_C02_ChunkedHash split=0..2
//vf:job C02 quick VF_C02_BadFormat t=0..3
//vf:job C02 quick VF_C02_Lua
//vf:job C02 quick VF_C02_CompareVersion
//vf:job C02 thorough VF_C02_BigKey t=0..6 n=3
//vf:job C02 thorough VF_C02_BigKey t=11..12 n=3
//vf:job C02 thorough VF_C02_BigKey t=10 n=3 fresh=1
//vf:job C02 thorough VF_C02_BigKey t=4..5 n=2 scores=7
//vf:job C02 thorough VF_C02_Flush count=99..101
//vf:job C02 thorough VF_C02_Flush count=200..201
//vf:replayE C02 VF_C02_ChunkedHash VF_C02_Restore VF_C02_BigKey VF_C02_QuicklistRoute VF_C02_BadFormat VF_C02_Lua VF_C02_Flush
//vf:stub C02 time.Now: fixed instant (the TTL arithmetic is exercised through a symbolic ExpireAt and three ShiftTime values instead of a symbolic clock: 64-bit multiplication/division by 10^6/10^9 of a symbolic clock is not decided by any back end)
//vf:stub C02 target connection: the model target (tiny Redis); RESTORE answers BUSYKEY iff the key exists and REPLACE is absent, "Bad data format" iff configured
//vf:assume C02 a pre-existing key is a list/hash/string with contents different from the source's
//vf:outside C02 ziplist skeletons (t=7..9) with three entries, and with two entries against an existing key (the two-entry runs use an absent key and policy rewrite: 10^4 paths per skeleton otherwise); wide ziplist integers with more than one entry; UCloud key rewriting; cluster target driver; strings longer than 2 bytes; more than 3 elements except the flush-batch family; zipmap entries of 253 bytes and more

import (
	"math"
	"strconv"
	"time"

	"github.com/alibaba/RedisShake/pkg/rdb"
	conf "github.com/alibaba/RedisShake/redis-shake/configure"
)

var vfVersions = []string{"5", "5.0", "5.0.7", "4.0", "6", "2.8.19"}

const vfNowSec = 1600000000

func vfFixClock() {
	vfStub("time.Now", func() time.Time { return time.Unix(vfNowSec, 0) })
}

func vfNowMs(shift time.Duration) uint64 {
	return uint64(time.Unix(vfNowSec, 0).Add(shift).UnixNano()) / uint64(time.Millisecond)
}

func vfResetConf() {
	conf.Options.SourceRdbSpecialCloud = ""
	conf.Options.ReplaceHashTag = false
	conf.Options.ShiftTime = 0
	conf.Options.KeyExists = "none"
	conf.Options.TargetReplace = false
	conf.Options.BigKeyThreshold = 1 << 40
	conf.Options.TargetVersion = "5.0"
	conf.Options.FilterLua = false
	conf.Options.Metric = false
}

var vfPolicies = []string{"none", "rewrite", "ignore"}

// vfExpiry chooses the source expiry relative to the (shifted) clock and returns (ExpireAt, expected ttl, has ttl)
func vfExpiry(kind int) (uint64, uint64, bool) {
	return vfExpiryShift(kind, vfPick("shift", 3))
}

func vfExpiryShift(kind int, shiftIx int) (uint64, uint64, bool) {
	shift := []time.Duration{0, time.Hour, -time.Hour}[shiftIx]
	conf.Options.ShiftTime = shift
	now := vfNowMs(shift)
	switch kind {
	case 0:
		return 0, 0, false
	case 1:
		d := vfUint64("ttl")
		vfAssume(d >= 1)
		vfAssume(d <= 1<<40)
		return now + d, d, true
	}
	back := vfUint64("ago")
	vfAssume(back <= 1<<40)
	return now - back, 1, true
}

// pre-existing key in db 0 with contents that differ from anything the source carries
func vfPreKey(r *vfRedis, key []byte, kind int) {
	switch kind {
	case 1:
		r.apply(vfCmd{name: "rpush", args: [][]byte{key, []byte("OLD")}})
	case 2:
		r.apply(vfCmd{name: "hset", args: [][]byte{key, []byte("OLDF"), []byte("OLDV")}})
	case 3:
		r.apply(vfCmd{name: "set", args: [][]byte{key, []byte("OLD")}})
	}
}

func vfUnchanged(r *vfRedis, key []byte, kind int) bool {
	_, k := r.find(0, key)
	if k == nil {
		return false
	}
	switch kind {
	case 1:
		return k.kind == "list" && len(k.elems) == 1 && string(k.elems[0]) == "OLD" && !k.hasTTL
	case 2:
		return k.kind == "hash" && len(k.pairs) == 1 && string(k.pairs[0].f) == "OLDF" && string(k.pairs[0].v) == "OLDV" && !k.hasTTL
	case 3:
		return k.kind == "string" && string(k.str) == "OLD" && !k.hasTTL
	}
	return false
}

func vfTTLOk(k *vfKey, want uint64, has bool) bool {
	if !has {
		return !k.hasTTL
	}
	return vfAnd(k.hasTTL, uint64(k.ttl) == want)
}

// ---- route 1: a single RESTORE
func VF_C02_Restore() {
	vfResetConf()
	vfFixClock()
	ver := vfVersions[vfParam("ver", 1)]
	conf.Options.TargetVersion = ver
	policy := vfPick("policy", 3)
	conf.Options.KeyExists = vfPolicies[policy]
	conf.Options.TargetReplace = vfPick("replace", 2) == 1
	pre := vfPick("pre", 3) // 0 absent, 1 list, 2 hash
	r := vfNewRedis()
	r.noReplace = !conf.Options.TargetReplace
	key := vfBytes("key", 2)
	vfPreKey(r, key, pre)
	expireAt, wantTTL, hasTTL := vfExpiry(vfParam("exp", 0))
	payload := vfBytes("payload", 3)
	e := &rdb.BinEntry{DB: 0, Key: append([]byte{}, key...), Type: byte(vfPick("type", 3)) * 5, Value: payload, ExpireAt: expireAt,
		IdleTime: vfUint32("idle"), Freq: vfByte("freq")}
	err := RestoreRdbEntry(r, e)
	_, k := r.find(0, key)
	newer := ver != "4.0" && ver != "2.8.19"
	if pre == 0 || policy == 1 {
		vfAssert(err == nil, "restore of a fresh key (or with policy rewrite) failed")
		ok := k != nil && k.kind == "blob" && len(k.payload) == 3 && vfEqBytes(k.payload, payload)
		vfAssert(ok, "target key does not hold the source payload")
		if k != nil && k.kind == "blob" {
			vfAssert(vfTTLOk(k, wantTTL, hasTTL), "time-to-live differs from expiry minus shifted now")
			vfAssert(vfImplies(vfAnd(newer, e.IdleTime != 0), vfAnd(k.hasIdle, k.idle == int64(e.IdleTime))), "idle hint lost although the target supports it")
			vfAssert(vfImplies(vfAnd(newer, e.Freq != 0), vfAnd(k.hasFreq, k.freq == int64(e.Freq))), "freq hint lost although the target supports it")
			vfAssert(newer || (!k.hasIdle && !k.hasFreq), "IDLETIME/FREQ sent to a target older than 5.0")
		}
	} else if policy == 0 {
		vfAssert(err != nil, "policy none on an existing key must report an error")
		vfAssert(vfUnchanged(r, key, pre), "policy none must leave the target untouched")
	} else {
		vfAssert(err == nil, "policy ignore must not fail")
		vfAssert(vfUnchanged(r, key, pre), "policy ignore must leave the target untouched")
	}
	vfAssertTwin(err != nil, "twin")
}

// ---- logical values and their serialisations for the element routes
type vfLogical struct {
	kind  string
	str   []byte
	elems [][]byte
	pairs []vfPair
}

func vfCat(parts ...[]byte) []byte {
	var out []byte
	for _, p := range parts {
		out = append(out, p...)
	}
	return out
}

var vfScoreTexts = []string{"-2.5", "inf", "3.0000000000000004", "1", "1e3", "0", "-inf"}

func vfNScores() int { return vfParam("scores", 3) }

// vfBuild returns (rdb type, serialized value bytes, logical value) for value skeleton t with n elements
func vfBuild(t, n int) (byte, []byte, vfLogical) {
	el := func(tag string, i int) []byte { return vfBytes(tag, 1+i%2) }
	switch t {
	case 0:
		s := vfBytes("s", 2)
		return rdb.RdbTypeString, vfRdbStr(s), vfLogical{kind: "string", str: s}
	case 1:
		v := int8(vfByte("i8"))
		return rdb.RdbTypeString, []byte{0xc0, byte(v)}, vfLogical{kind: "string", str: []byte(strconv.FormatInt(int64(v), 10))}
	case 2, 3:
		raw := vfRdbLen(n)
		lg := vfLogical{kind: "list"}
		typ := byte(rdb.RdbTypeList)
		if t == 3 {
			lg.kind, typ = "set", rdb.RdbTypeSet
		}
		for i := 0; i < n; i++ {
			e := el("e", i)
			if t == 3 {
				e = append([]byte{byte('a' + i)}, e...) // set members are pairwise distinct
			}
			raw = append(raw, vfRdbStr(e)...)
			lg.elems = append(lg.elems, e)
		}
		return typ, raw, lg
	case 4: // zset with text scores
		raw := vfRdbLen(n)
		lg := vfLogical{kind: "zset"}
		for i := 0; i < n; i++ {
			m := append([]byte{byte('a' + i)}, vfBytes("m", 1)...)
			sc := vfScoreTexts[vfPick("score", vfNScores())]
			raw = append(raw, vfRdbStr(m)...)
			switch sc {
			case "inf":
				raw = append(raw, 254)
			case "-inf":
				raw = append(raw, 255)
			default:
				raw = append(raw, byte(len(sc)))
				raw = append(raw, sc...)
			}
			lg.pairs = append(lg.pairs, vfPair{m, []byte(sc)})
		}
		return rdb.RdbTypeZSet, raw, lg
	case 5: // zset2 with binary scores (concrete list of edge values)
		raw := vfRdbLen(n)
		lg := vfLogical{kind: "zset"}
		for i := 0; i < n; i++ {
			m := append([]byte{byte('a' + i)}, vfBytes("m", 1)...)
			sc := vfScoreTexts[vfPick("score", vfNScores())]
			f, _ := strconv.ParseFloat(sc, 64)
			bits := vfFloatBits(f)
			raw = append(raw, vfRdbStr(m)...)
			for j := 0; j < 8; j++ {
				raw = append(raw, byte(bits>>(8*uint(j))))
			}
			lg.pairs = append(lg.pairs, vfPair{m, []byte(sc)})
		}
		return rdb.RdbTypeZSet2, raw, lg
	case 6: // hash
		raw := vfRdbLen(n)
		lg := vfLogical{kind: "hash"}
		for i := 0; i < n; i++ {
			f := append([]byte{byte('a' + i)}, vfBytes("f", 1)...)
			v := el("v", i)
			raw = append(raw, vfRdbStr(f)...)
			raw = append(raw, vfRdbStr(v)...)
			lg.pairs = append(lg.pairs, vfPair{f, v})
		}
		return rdb.RdbTypeHash, raw, lg
	case 7, 8, 9: // ziplist list / hash / zset
		var ents []vfZLEntry
		lg := vfLogical{kind: "list"}
		typ := byte(rdb.RdbTypeListZiplist)
		if t == 8 {
			lg.kind, typ = "hash", rdb.RdbTypeHashZiplist
		}
		if t == 9 {
			lg.kind, typ = "zset", rdb.RdbTypeZSetZiplist
		}
		for i := 0; i < n; i++ {
			a := vfZLStr(append([]byte{byte('a' + i)}, vfBytes("z", 1)...), 0)
			var b vfZLEntry
			switch vfPick("enc", 4) {
			case 0:
				b = vfZLInt(int64(vfByte("i4")%13), 0)
			case 1:
				b = vfZLInt(int64(int8(vfByte("i8"))), 1)
			case 2:
				if i == 0 {
					b = vfZLInt(int64(int16(vfUint16("i16"))), 2)
				} else {
					b = vfZLInt(int64(int8(vfByte("i16b"))), 2)
				}
			default:
				b = vfZLStr(vfBytes("zs", 1), 1)
				if t == 9 {
					b = vfZLStr([]byte("2.5"), 0)
				}
			}
			if t == 7 {
				ents = append(ents, a, b)
				lg.elems = append(lg.elems, a.logical(), b.logical())
			} else {
				ents = append(ents, a, b)
				lg.pairs = append(lg.pairs, vfPair{a.logical(), b.logical()})
			}
		}
		return typ, vfRdbStr(vfZiplist(ents)), lg
	case 10: // intset
		width := []int{2, 4, 8}[vfPick("width", 3)]
		lg := vfLogical{kind: "set"}
		var vals []int64
		for i := 0; i < n; i++ {
			v := int64(int16(vfUint16("iv")))
			if i > 0 {
				v = int64(int8(vfByte("iv8")))
				for _, o := range vals {
					vfAssume(v != o) // set members are pairwise distinct
				}
			}
			vals = append(vals, v)
			lg.elems = append(lg.elems, []byte(strconv.FormatInt(v, 10)))
		}
		return rdb.RdbTypeSetIntset, vfRdbStr(vfIntset(vals, width)), lg
	case 11: // zipmap
		lg := vfLogical{kind: "hash"}
		var ps [][2][]byte
		for i := 0; i < n; i++ {
			f := append([]byte{byte('a' + i)}, vfBytes("f", 1)...)
			v := el("v", i)
			ps = append(ps, [2][]byte{f, v})
			lg.pairs = append(lg.pairs, vfPair{f, v})
		}
		lenByte := byte(n)
		if vfPick("zmlen", 2) == 1 {
			lenByte = 254
		}
		return rdb.RdbTypeHashZipmap, vfRdbStr(vfZipmap(ps, vfPick("free", 2), lenByte)), lg
	case 12: // quicklist through the big-key route
		raw := vfRdbLen(n)
		lg := vfLogical{kind: "list"}
		for i := 0; i < n; i++ {
			a := vfZLStr(vfBytes("q", 1), 0)
			b := vfZLInt(int64(int8(vfByte("qi"))), 1)
			raw = append(raw, vfRdbStr(vfZiplist([]vfZLEntry{a, b}))...)
			lg.elems = append(lg.elems, a.logical(), b.logical())
		}
		return rdb.RdbTypeQuicklist, raw, lg
	case 13: // list of integer-encoded strings
		raw := vfRdbLen(n)
		lg := vfLogical{kind: "list"}
		for i := 0; i < n; i++ {
			v := int16(vfUint16("li"))
			if i > 0 {
				v = int16(int8(vfByte("li8")))
			}
			raw = append(raw, 0xc1, byte(v), byte(uint16(v)>>8))
			lg.elems = append(lg.elems, []byte(strconv.FormatInt(int64(v), 10)))
		}
		return rdb.RdbTypeList, raw, lg
	case 14, 15: // wide ziplist integers (24, 32 and 64 bit) in a ziplist list / a quicklist node
		var ents []vfZLEntry
		lg := vfLogical{kind: "list"}
		for i := 0; i < n; i++ {
			var b vfZLEntry
			switch vfPick("wenc", 3) {
			case 0:
				b = vfZLInt(int64(int32(vfUint32("i24")))>>8, 3)
			case 1:
				v := int32(vfUint32("i32"))
				vfAssume(vfOr(vfAnd(v >= -130, v <= 130), vfOr(v >= 2147483640, v <= -2147483640)))
				b = vfZLInt(int64(v), 4)
			default:
				v := vfInt64("i64")
				vfAssume(vfOr(vfAnd(v >= -130, v <= 130), vfOr(v >= 9223372036854775800, v <= -9223372036854775800)))
				b = vfZLInt(v, 5)
			}
			ents = append(ents, b)
			lg.elems = append(lg.elems, b.logical())
		}
		if t == 14 {
			return rdb.RdbTypeListZiplist, vfRdbStr(vfZiplist(ents)), lg
		}
		return rdb.RdbTypeQuicklist, append(vfRdbLen(1), vfRdbStr(vfZiplist(ents))...), lg
	}
	return 0, nil, vfLogical{}
}

func vfFloatBits(f float64) uint64 { return math.Float64bits(f) }

func vfBytesEq(a, b []byte) bool { return len(a) == len(b) && vfEqBytes(a, b) }

func vfScoreEq(got, want []byte) bool {
	if !vfIsConcrete(got) || !vfIsConcrete(want) {
		// symbolic score text is passed through by the tool unchanged: compare the text
		return vfBytesEq(got, want)
	}
	g, err1 := strconv.ParseFloat(string(got), 64)
	w, err2 := strconv.ParseFloat(string(want), 64)
	return err1 == nil && err2 == nil && g == w
}

// vfHolds: the model key holds exactly the logical value
func vfHolds(k *vfKey, lg vfLogical) bool {
	if k == nil {
		return false
	}
	switch lg.kind {
	case "string":
		return k.kind == "string" && vfBytesEq(k.str, lg.str)
	case "list":
		if k.kind != "list" || len(k.elems) != len(lg.elems) {
			return false
		}
		ok := true
		for i := range lg.elems {
			ok = vfAnd(ok, vfBytesEq(k.elems[i], lg.elems[i]))
		}
		return ok
	case "set":
		if k.kind != "set" || len(k.elems) != len(lg.elems) {
			return false
		}
		ok := true
		for _, w := range lg.elems {
			has := false
			for _, g := range k.elems {
				has = vfOr(has, vfBytesEq(g, w))
			}
			ok = vfAnd(ok, has)
		}
		return ok
	case "hash", "zset":
		if k.kind != lg.kind || len(k.pairs) != len(lg.pairs) {
			return false
		}
		ok := true
		for _, w := range lg.pairs {
			has := false
			for _, g := range k.pairs {
				if lg.kind == "zset" {
					has = vfOr(has, vfAnd(vfBytesEq(g.f, w.f), vfScoreEq(g.v, w.v)))
				} else {
					has = vfOr(has, vfAnd(vfBytesEq(g.f, w.f), vfBytesEq(g.v, w.v)))
				}
			}
			ok = vfAnd(ok, has)
		}
		return ok
	}
	return false
}

func vfEntry(typ byte, raw []byte, key []byte, expireAt uint64) *rdb.BinEntry {
	val := vfCat([]byte{typ}, raw, vfBytes("trailer", 10))
	return &rdb.BinEntry{DB: 0, Key: append([]byte{}, key...), Type: typ, Value: val, ExpireAt: expireAt, NeedReadLen: 1}
}

// ---- route 2: element by element (big key)
func VF_C02_BigKey() {
	vfResetConf()
	vfFixClock()
	conf.Options.BigKeyThreshold = 0
	policy, pre := 1, 0
	if vfParam("fresh", 0) == 0 {
		policy = vfPick("policy", 3)
		pre = vfPick("pre", 3) // 0 absent, 1 list, 2 hash
	} // fresh=1: target key absent, policy rewrite only (longer values; the policies are covered at n <= 2)
	conf.Options.KeyExists = vfPolicies[policy]
	r := vfNewRedis()
	key := vfBytes("key", 1)
	vfPreKey(r, key, pre)
	expireAt, wantTTL, hasTTL := vfExpiryShift(vfParam("exp", 1), vfParam("shift", 0))
	typ, raw, lg := vfBuild(vfParam("t", 0), vfParam("n", 1))
	e := vfEntry(typ, raw, key, expireAt)
	err := RestoreRdbEntry(r, e)
	_, k := r.find(0, key)
	if pre == 0 || policy == 1 {
		vfAssert(err == nil, "element-wise restore failed")
		vfAssert(vfHolds(k, lg), "target key does not hold the source's logical value (element route)")
		if k != nil {
			vfAssert(vfTTLOk(k, wantTTL, hasTTL), "time-to-live differs from expiry minus shifted now (element route)")
		}
	} else if policy == 0 {
		vfAssertK(err != nil, "policy none on an existing key must report an error (element route)", "C02-bigkey-policy", true)
		vfAssertK(vfUnchanged(r, key, pre), "policy none must leave the target untouched (element route)", "C02-bigkey-policy", true)
	} else {
		vfAssert(err == nil, "policy ignore must not fail")
		vfAssertK(vfUnchanged(r, key, pre), "policy ignore must leave the target untouched (element route)", "C02-bigkey-policy", true)
	}
	vfAssertTwin(err != nil, "twin")
}

// ---- hashes delivered in chunks (values above the 16 MiB split), as the parser marks them
func VF_C02_ChunkedHash() {
	vfResetConf()
	vfFixClock()
	split := [][]int{{1, 2}, {2, 1}, {1, 1, 1}}[vfParam("split", 0)]
	policy := vfPick("policy", 3)
	conf.Options.KeyExists = vfPolicies[policy]
	pre := vfPick("pre", 3)
	r := vfNewRedis()
	key := vfBytes("key", 1)
	vfPreKey(r, key, pre)
	expireAt, wantTTL, hasTTL := vfExpiryShift(vfPick("exp", 2), vfParam("shift", 0))
	lg := vfLogical{kind: "hash"}
	var firstErr error
	idx := 0
	// known finding: with key_exists=ignore and an existing key only the first chunk is skipped
	vfAllowAbort("C02-chunked-ignore", policy == 2 && pre != 0)
	for ci, cnt := range split {
		var raw []byte
		if ci == 0 {
			raw = vfRdbLen(3)
		}
		for j := 0; j < cnt; j++ {
			f := append([]byte{byte('a' + idx)}, vfBytes("f", 1)...)
			v := vfBytes("v", 1+idx%2)
			idx++
			raw = append(raw, vfRdbStr(f)...)
			raw = append(raw, vfRdbStr(v)...)
			lg.pairs = append(lg.pairs, vfPair{f, v})
		}
		e := vfEntry(rdb.RdbTypeHash, raw, key, 0)
		e.RealMemberCount = uint32(cnt)
		if ci == 0 {
			e.ExpireAt = expireAt
		} else {
			e.NeedReadLen = 0
		}
		if err := RestoreRdbEntry(r, e); err != nil && firstErr == nil {
			firstErr = err
			break // the caller stops at the first error
		}
	}
	_, k := r.find(0, key)
	if pre == 0 || policy == 1 {
		vfAssert(firstErr == nil, "chunked hash restore failed")
		vfAssert(vfHolds(k, lg), "target hash is not the concatenation of the chunks")
		if k != nil {
			vfAssert(vfTTLOk(k, wantTTL, hasTTL), "time-to-live of a chunked hash differs")
		}
	} else if policy == 0 {
		vfAssert(firstErr != nil, "policy none on an existing key must report an error (chunked hash)")
		vfAssert(vfUnchanged(r, key, pre), "policy none must leave the target untouched (chunked hash)")
	} else {
		vfAssert(firstErr == nil, "policy ignore must not fail")
		vfAssertK(vfUnchanged(r, key, pre), "policy ignore must leave the target untouched (chunked hash)", "C02-chunked-ignore", true)
	}
	vfAssertTwin(firstErr != nil, "twin")
}

// ---- route 3: quicklist
func VF_C02_QuicklistRoute() {
	vfResetConf()
	vfFixClock()
	policy := vfPick("policy", 3)
	conf.Options.KeyExists = vfPolicies[policy]
	pre := vfPick("pre", 2)
	r := vfNewRedis()
	key := vfBytes("key", 1)
	vfPreKey(r, key, pre)
	expireAt, wantTTL, hasTTL := vfExpiryShift(vfPick("exp", 3), vfParam("shift", 0))
	typ, raw, lg := vfBuild(12, vfParam("n", 1))
	e := vfEntry(typ, raw, key, expireAt)
	err := RestoreRdbEntry(r, e)
	_, k := r.find(0, key)
	if pre == 0 || policy == 1 {
		vfAssert(err == nil, "quicklist restore failed")
		vfAssert(vfHolds(k, lg), "target list differs from the source's (quicklist route)")
		if k != nil {
			vfAssert(vfTTLOk(k, wantTTL, hasTTL), "time-to-live differs (quicklist route)")
		}
	} else if policy == 0 {
		vfAssert(err != nil, "policy none on an existing key must report an error (quicklist route)")
		vfAssert(vfUnchanged(r, key, pre), "policy none must leave the target untouched (quicklist route)")
	} else {
		vfAssert(err == nil, "policy ignore must not fail")
		vfAssert(vfUnchanged(r, key, pre), "policy ignore must leave the target untouched (quicklist route)")
	}
	vfAssertTwin(err != nil, "twin")
}

// ---- route 4: the target rejects the payload format, the value is expanded instead
func VF_C02_BadFormat() {
	vfResetConf()
	vfFixClock()
	r := vfNewRedis()
	r.rejectBlob = func(p []byte) bool { return true }
	key := vfBytes("key", 1)
	expireAt, wantTTL, hasTTL := vfExpiryShift(vfPick("exp", 3), vfParam("shift", 0))
	typ, raw, lg := vfBuild([]int{2, 6, 4, 0}[vfParam("t", 0)], 2)
	e := vfEntry(typ, raw, key, expireAt)
	err := RestoreRdbEntry(r, e)
	_, k := r.find(0, key)
	vfAssert(err == nil, "fallback restore failed")
	vfAssert(vfHolds(k, lg), "target key does not hold the source's logical value (fallback route)")
	if k != nil {
		vfAssert(vfTTLOk(k, wantTTL, hasTTL), "time-to-live lost on the fallback route")
	}
	vfAssertTwin(err != nil, "twin")
}

// Lua scripts are loaded unless filter.lua is set
func VF_C02_Lua() {
	vfResetConf()
	conf.Options.FilterLua = vfPick("filterlua", 2) == 1
	r := vfNewRedis()
	body := vfBytes("script", 3)
	e := &rdb.BinEntry{DB: 0, Key: []byte("lua"), Type: rdb.RdbFlagAUX, Value: body}
	err := RestoreRdbEntry(r, e)
	vfAssert(err == nil, "script load failed")
	if conf.Options.FilterLua {
		vfAssert(len(r.scripts) == 0 && len(r.trace) == 0, "script loaded although filter.lua is set")
	} else {
		vfAssert(len(r.scripts) == 1 && vfBytesEq(r.scripts[0], body), "script not loaded with its exact body")
	}
	vfAssertTwin(len(r.scripts) == 1, "twin")
}

// collection sizes around the 100-command flush batch
func VF_C02_Flush() {
	vfResetConf()
	vfFixClock()
	conf.Options.BigKeyThreshold = 0
	count := vfParam("count", 100)
	r := vfNewRedis()
	key := []byte("k")
	raw := vfRdbLen(count)
	lg := vfLogical{kind: "list"}
	for i := 0; i < count; i++ {
		e := vfBytes("e", 1)
		raw = append(raw, vfRdbStr(e)...)
		lg.elems = append(lg.elems, e)
	}
	e := vfEntry(rdb.RdbTypeList, raw, key, 0)
	err := RestoreRdbEntry(r, e)
	_, k := r.find(0, key)
	vfAssert(err == nil, "restore failed")
	vfAssert(vfHolds(k, lg), "list differs around the flush batch boundary")
	vfAssert(len(r.pend) == 0, "replies left unread after the restore")
	vfAssertTwin(err != nil, "twin")
}

// no accepted version string makes the comparison abort; result agrees with numeric comparison of the first two components
func VF_C02_CompareVersion() {
	a := []byte{vfByte("maj")}
	vfAssume(a[0] >= '0')
	vfAssume(a[0] <= '9')
	form := vfPick("form", 3)
	minor := byte('0')
	switch form {
	case 1:
		minor = vfByte("min")
		vfAssume(minor >= '0')
		vfAssume(minor <= '9')
		a = append(a, '.', minor)
	case 2:
		minor = vfByte("min")
		vfAssume(minor >= '0')
		vfAssume(minor <= '9')
		a = append(a, '.', minor, '.', '7')
	}
	got := CompareVersion(string(a), "5.0", 2)
	av := int(a[0]-'0')*10 + int(minor-'0')
	want := 0
	if av > 50 {
		want = 2
	} else if av < 50 {
		want = 1
	}
	vfAssert(got == want, "CompareVersion disagrees with the numeric order of major.minor")
	vfAssertTwin(got == 0, "twin")
}
