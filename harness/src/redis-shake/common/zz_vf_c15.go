package utils

// C15 — key-to-slot mapping follows the Redis Cluster specification.
//
//vf:job C15 quick VF_C15_KeyToSlot n=0..4
//vf:job C15 thorough VF_C15_KeyToSlot n=5..6
//vf:assume C15 crc16 on the specification side is the tool's own function applied to the spec tag (CRC16/XMODEM equivalence is the separate one-step lemma)
//vf:outside C15 keys longer than the stated n


// specTag is the cluster-spec hash tag rule: the substring between the first
// '{' and the first following '}' when non-empty, else the whole key.
func vfSpecTag(key string) string {
	for i := 0; i < len(key); i++ {
		if key[i] == '{' {
			for k := i + 1; k < len(key); k++ {
				if key[k] == '}' {
					if k == i+1 {
						return key
					}
					return key[i+1 : k]
				}
			}
			return key
		}
	}
	return key
}

// VF_C15_KeyToSlot: for every key of length n the slot equals crc16(spec tag) mod 16384.
func VF_C15_KeyToSlot() {
	n := vfParam("n", 3)
	key := vfStr("key", n)
	got := KeyToSlot(key)
	want := crc16(vfSpecTag(key)) & 0x3fff
	vfObserve("got", int(got))
	vfObserve("want", int(want))
	vfAssert(got == want, "KeyToSlot differs from the cluster specification")
	vfAssertTwin(got != want, "twin: slot always differs")
}
