package utils

// C15 — key-to-slot mapping follows the Redis Cluster specification.
//
//vf:opt C15 timeout=60000
//vf:opt C06 timeout=60000
//vf:job C15 quick VF_C15_KeyToSlot n=0..4
//vf:job C15 thorough VF_C15_KeyToSlot n=5..6
//vf:assume C15 crc16 on the specification side is the tool's own function applied to the spec tag (CRC16/XMODEM equivalence is the separate one-step lemma)
//vf:outside C15 keys longer than the stated n


// specTag is the cluster-spec hash tag rule: the substring between the first
// '{' and the first following '}' when non-empty, else the whole key.
func vfSpecTag(key string) string {
	for i := 0; i < len(key); i++ {
		if key[i] == '{' {
			for k := i + 1; k < len(key); k++ {
				if key[k] == '}' {
					if k == i+1 {
						return key
					}
					return key[i+1 : k]
				}
			}
			return key
		}
	}
	return key
}

// VF_C15_KeyToSlot: for every key of length n the slot equals crc16(spec tag) mod 16384.
func VF_C15_KeyToSlot() {
	n := vfParam("n", 3)
	key := vfStr("key", n)
	got := KeyToSlot(key)
	want := crc16(vfSpecTag(key)) & 0x3fff
	vfObserve("got", int(got))
	vfObserve("want", int(want))
	vfAssert(got == want, "KeyToSlot differs from the cluster specification")
	vfAssertTwin(got != want, "twin: slot always differs")
}

//vf:job C15 quick VF_C15_Crc16Step
//vf:job C15 quick VF_C15_Crc16CheckValue
//vf:job C15 quick VF_C15_ChosenKeyInRange lr=0..5
//vf:job C15 quick VF_C15_ChosenKeyHistory
//vf:job C15 quick VF_C15_SlotFilterUse n=1..3
//vf:replayE C15 VF_C15_ChosenKeyInRange
//vf:stub C15 redis-go-cluster GetSlot (used by the checkpoint key search) is replaced by the tool's own KeyToSlot, which the first harness ties to the specification
//vf:assume C15 CRC16: one table step from an arbitrary 16-bit state equals one bitwise XMODEM step (polynomial 0x1021, no reflection); longer strings by induction (paper); plus the published check value crc16("123456789") = 0x31C3
//vf:outside C15 existence of a suffix for every [l,r] (a 26^4-leaf concrete enumeration, not a solver question): six ranges are run concretely

// vfXmodemStep is the textbook bitwise CRC16/XMODEM step (branch free)
func vfXmodemStep(crc uint16, b byte) uint16 {
	crc ^= uint16(b) << 8
	for i := 0; i < 8; i++ {
		crc = (crc << 1) ^ (0x1021 & -(crc >> 15))
	}
	return crc
}

// one table step of the tool's crc16 from an arbitrary state == bitwise XMODEM step
func VF_C15_Crc16Step() {
	s := vfUint16("s")
	b := vfByte("b")
	got := (s << 8) ^ crc16tab[byte(s>>8)^b]
	vfAssert(got == vfXmodemStep(s, b), "crc16 table step differs from the bitwise CRC16/XMODEM step")
	// and crc16 of a 1- and 2-byte string is the fold of steps from 0
	k := vfStr("k", 2)
	vfAssert(crc16(k[:1]) == vfXmodemStep(0, k[0]), "crc16 of one byte")
	vfAssert(crc16(k) == vfXmodemStep(vfXmodemStep(0, k[0]), k[1]), "crc16 of two bytes is not the fold of two steps")
	vfAssertTwin(got == s, "twin")
}

func VF_C15_Crc16CheckValue() {
	vfAssert(crc16("123456789") == 0x31c3, "crc16 check value for \"123456789\" is not 0x31C3")
	vfAssert(crc16("") == 0, "crc16 of the empty string")
	vfAssert(KeyToSlot("123456789") == 0x31c3&0x3fff, "slot of the check string")
	vfAssert(KeyToSlot("foo{bar}zap") == KeyToSlot("bar") && KeyToSlot("{user1000}.following") == KeyToSlot("{user1000}.followers"), "hash tag examples of the cluster specification")
	vfAssertTwin(crc16("a") == 0, "twin")
}

var vfRanges = [][2]int{{0, 16383}, {0, 8191}, {8192, 16383}, {5461, 10922}, {12000, 16383}, {0, 4000}}

// the checkpoint key chosen for a shard hashes inside the shard's slot range and is excluded by the key filter
func VF_C15_ChosenKeyInRange() {
	lr := vfRanges[vfParam("lr", 0)]
	vfStub("github.com/vinllen/redis-go-cluster.GetSlot", func(key interface{}) (uint16, error) { return KeyToSlot(string(key.([]byte))), nil })
	name := ChoseSlotInRange(CheckpointKey, lr[0], lr[1])
	vfAssert(len(name) == len(CheckpointKey)+1+checkpointSuffixLen && name[:len(CheckpointKey)+1] == CheckpointKey+"-", "chosen checkpoint key is not <prefix>-xxxx")
	slot := int(KeyToSlot(name))
	vfAssert(slot >= lr[0] && slot <= lr[1], "chosen checkpoint key does not hash into the shard's slot range")
	vfAssertTwin(slot < lr[0], "twin")
}

// a shard's range changes between restarts of its syncer (slots given away or received): every call
// answers for the range it is given, whatever was asked before
var vfHistRanges = [][2]int{{0, 16383}, {0, 8191}, {0, 1276}, {0, 100}, {5461, 10922}, {5461, 6000}}

func VF_C15_ChosenKeyHistory() {
	vfStub("github.com/vinllen/redis-go-cluster.GetSlot", func(key interface{}) (uint16, error) { return KeyToSlot(string(key.([]byte))), nil })
	for step := 0; step < 3; step++ {
		lr := vfHistRanges[vfPick("range", len(vfHistRanges))]
		name := ChoseSlotInRange(CheckpointKey, lr[0], lr[1])
		slot := int(KeyToSlot(name))
		vfAssert(slot >= lr[0] && slot <= lr[1], "chosen checkpoint key does not hash into the range asked for (after earlier calls with other ranges)")
	}
	vfAssertTwin(false, "twin")
}

// full sync's slot filter input is the same slot function: keys with the same tag share the decision
func VF_C15_SlotFilterUse() {
	n := vfParam("n", 2)
	tag := vfStr("tag", n)
	for i := 0; i < n; i++ {
		vfAssume(tag[i] != '{')
		vfAssume(tag[i] != '}')
	}
	a := "{" + tag + "}" + vfStr("x", 1)
	b := vfStr("y", 1) + "{" + tag + "}"
	vfAssume(b[0] != '{')
	vfAssert(KeyToSlot(a) == KeyToSlot(tag) && KeyToSlot(b) == KeyToSlot(tag), "keys sharing a hash tag do not share a slot")
	vfAssertTwin(KeyToSlot(a) != KeyToSlot(b), "twin")
}
