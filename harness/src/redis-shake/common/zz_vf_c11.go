package utils

// C11 — payload verification (rump diagnostics) and the linked crc64 module.
//
//vf:job C11 quick VF_C11_ExtDigestIsJones
//vf:job C11 quick VF_C11_CheckVersionChecksum_Accepts n=0..2
//vf:job C11 quick VF_C11_CheckVersionChecksum_RejectsVersion n=0..1
//vf:job C11 quick VF_C11_CheckVersionChecksum_RejectsCRC n=0..1 pos=0..7
// (no job) VF_C11_CheckVersionChecksum_RejectsData: three chained CRC steps; unknown at 60 s in all back ends; covered on paper by step injectivity
//vf:job C11 quick VF_C11_CheckVersionChecksum_RejectsShort n=0..9
//vf:outside C11 payload bodies longer than 2 bytes (the trailer is always complete; longer bodies follow from the one-step lemmas)

import "github.com/cupcake/rdb/crc64"

const vfJonesRefU = 0x95ac9329ac4bc9b5

func vfBitStepU(crc uint64, b byte) uint64 {
	crc ^= uint64(b)
	for i := 0; i < 8; i++ {
		crc = (crc >> 1) ^ (vfJonesRefU & -(crc & 1))
	}
	return crc
}

// the module-cache crc64 that common.go, verifyDump and both encoders link:
// one byte from the zero state, and one byte appended to an arbitrary hash state
func VF_C11_ExtDigestIsJones() {
	b := vfByte("b")
	vfAssert(crc64.Digest([]byte{b}) == vfBitStepU(0, b), "crc64.Digest of one byte differs from the bitwise Jones step")
	vfAssert(crc64.Digest(nil) == 0, "crc64.Digest of nothing is not zero")
	vfAssertTwin(crc64.Digest([]byte{b}) != 0, "twin")
}

// vfMakeDump builds body || LE16(version) || LE64(crc of the preceding bytes) with the tool's own digest
func vfMakeDump(body []byte, version uint16) []byte {
	d := append([]byte{}, body...)
	d = append(d, byte(version), byte(version>>8))
	c := crc64.Digest(d)
	for i := 0; i < 8; i++ {
		d = append(d, byte(c>>(8*uint(i))))
	}
	return d
}

func VF_C11_CheckVersionChecksum_Accepts() {
	n := vfParam("n", 1)
	body := vfBytes("body", n)
	ver := vfUint16("ver")
	vfAssume(uint(ver) <= RDBVersion)
	d := vfMakeDump(body, ver)
	v, sum, err := CheckVersionChecksum(d)
	vfAssert(err == nil, "intact payload with a supported version is rejected")
	if err == nil {
		vfAssert(v == uint(ver), "reported version differs from the trailer")
		vfAssert(sum == crc64.Digest(d[:len(d)-8]), "reported checksum differs")
	}
	vfAssertTwin(err != nil, "twin")
}

func VF_C11_CheckVersionChecksum_RejectsVersion() {
	n := vfParam("n", 1)
	body := vfBytes("body", n)
	ver := vfUint16("ver")
	vfAssume(uint(ver) > RDBVersion)
	d := vfMakeDump(body, ver)
	_, _, err := CheckVersionChecksum(d)
	vfObserve("ver", ver)
	vfAssert(err != nil, "payload with a version above the supported one is accepted")
	vfAssertTwin(err == nil, "twin")
}

func VF_C11_CheckVersionChecksum_RejectsCRC() {
	n := vfParam("n", 1)
	pos := vfParam("pos", 0)
	body := vfBytes("body", n)
	ver := vfUint16("ver")
	vfAssume(uint(ver) <= RDBVersion)
	d := vfMakeDump(body, ver)
	x := vfByte("x")
	i := len(d) - 8 + pos
	vfAssume(x != d[i])
	d[i] = x
	_, _, err := CheckVersionChecksum(d)
	vfAssert(err != nil, "payload with an altered checksum byte is accepted")
	vfAssertTwin(err == nil, "twin")
}

// one altered body byte (checksum kept) is rejected
func VF_C11_CheckVersionChecksum_RejectsData() {
	n := vfParam("n", 1)
	body := vfBytes("body", n)
	ver := vfUint16("ver")
	vfAssume(uint(ver) <= RDBVersion)
	d := vfMakeDump(body, ver)
	x := vfByte("x")
	vfAssume(x != d[0])
	d[0] = x
	_, _, err := CheckVersionChecksum(d)
	vfAssert(err != nil, "payload with an altered data byte is accepted")
	vfAssertTwin(err == nil, "twin")
}

func VF_C11_CheckVersionChecksum_RejectsShort() {
	n := vfParam("n", 0)
	d := vfBytes("d", n)
	_, _, err := CheckVersionChecksum(d)
	vfAssert(err != nil, "payload shorter than its 10-byte trailer is accepted")
}
