package utils

// C05 — the RDB / command-stream hand-off loses and duplicates no byte (unit parts in package utils).
//
//vf:job C05 quick VF_C05_WaitRdbDump nl=0..2 digits=1..3
//vf:job C05 quick VF_C05_Iocopy plen=1..4
//vf:job C05 quick VF_C05_PSyncFull style=0..2
//vf:job C05 quick VF_C05_PSyncContinue style=0..2
//vf:job C08 quick VF_C05_PSyncContinue style=0..2
//vf:replayE C05 VF_C05_WaitRdbDump VF_C05_PSyncFull
//vf:stub C05 the source connection is a reader that returns a symbolic number of bytes per Read: every count in 1..len(p) for the header and copy units, {1, half, all} per read for the PSYNC reply family (every count there exceeds the path budget)
//vf:outside C05 TLS; OpenSyncConn's dialing; the 32 MiB bufio layer is exercised at its real size only through sparse concrete memory, the pipe at 4096 bytes (C09)

import (
	"bufio"
	"bytes"
	"strconv"

	"github.com/alibaba/RedisShake/pkg/redis"
)

// vfFrag returns between 1 and len(p) bytes per Read, the count being symbolic
type vfFrag struct {
	data   []byte
	pos    int
	eof    error
	coarse bool
	nsplit int
}

func (f *vfFrag) Read(p []byte) (int, error) {
	rest := len(f.data) - f.pos
	if rest == 0 {
		if f.eof != nil {
			return 0, f.eof
		}
		vfPark()
	}
	max := len(p)
	if rest < max {
		max = rest
	}
	n := 1
	if max > 1 {
		if f.coarse {
			// the first reads are split symbolically (one byte, half, or everything that fits),
			// later ones return everything: an unbounded number of 1-byte reads is exponential
			n = max
			if f.nsplit < 2 {
				f.nsplit++
				n = []int{1, (max + 1) / 2, max}[vfPick("frag", 3)]
			}
		} else {
			n = 1 + vfPick("frag", max)
		}
	}
	copy(p, f.data[f.pos:f.pos+n])
	f.pos += n
	return n, nil
}

func vfDigitsN(tag string, n int) []byte {
	d := vfBytes(tag, n)
	for i, c := range d {
		vfAssume(c >= '0')
		vfAssume(c <= '9')
		if i == 0 {
			vfAssume(c != '0')
		}
	}
	return d
}

func vfDecimal(d []byte) int64 {
	v := int64(0)
	for _, c := range d {
		v = v*10 + int64(c-'0')
	}
	return v
}

// '$<n>\r\n' header with keep-alive newlines: j zeros, then n; exactly the header is consumed
func VF_C05_WaitRdbDump() {
	nl := vfParam("nl", 0)
	d := vfDigitsN("n", vfParam("digits", 1))
	var s []byte
	for i := 0; i < nl; i++ {
		s = append(s, '\n')
	}
	s = append(s, '$')
	s = append(s, d...)
	s = append(s, '\r', '\n')
	hdr := len(s)
	s = append(s, vfBytes("rdb", 3)...)
	f := &vfFrag{data: s}
	ch := waitRdbDump(f)
	for i := 0; i < nl; i++ {
		v := <-ch
		vfAssert(v == 0, "keep-alive newline must be reported as 0")
	}
	v := <-ch
	vfAssert(v == vfDecimal(d), "announced RDB size differs from the header")
	vfAssert(f.pos == hdr, "header parsing consumed bytes of the RDB (or left header bytes unread)")
	vfAssertTwin(v == 0, "twin")
}

// bounded copy: at most max bytes, exactly what was read, in order, reader advanced by as much
func VF_C05_Iocopy() {
	plen := vfParam("plen", 2)
	data := vfBytes("d", 5)
	f := &vfFrag{data: data}
	f.pos = vfPick("pos", 3)
	start := f.pos
	var w bytes.Buffer
	max := vfInt("max")
	vfAssume(max >= 1)
	n := Iocopy(f, &w, make([]byte, plen), max)
	vfAssert(n >= 1 && n <= max && n <= plen, "Iocopy copied more than allowed (or nothing)")
	vfAssert(f.pos == start+n, "reader position advanced by something else than the bytes copied")
	out := w.Bytes()
	vfAssert(len(out) == n, "bytes written differ in number from the bytes read")
	if len(out) == n {
		vfAssert(vfEqBytes(out, data[start:start+n]), "bytes written are not the bytes read, in order")
	}
	vfAssertTwin(n != 1, "twin")
}

func vfCase(word string, style int) []byte {
	b := []byte(word)
	for i := range b {
		switch style {
		case 1:
			if b[i] >= 'a' && b[i] <= 'z' {
				b[i] -= 32
			}
		case 2:
			if i%2 == 0 && b[i] >= 'a' && b[i] <= 'z' {
				b[i] -= 32
			}
		}
	}
	return b
}

func vfToken(tag string, n int) []byte {
	t := vfBytes(tag, n)
	for _, c := range t {
		vfAssume(c != ' ')
		vfAssume(c != '\r')
		vfAssume(c != '\n')
	}
	return t
}

// +FULLRESYNC <runid> <offset> then $n, RDB, commands: run id / offset / size are the announced ones,
// the reader is left exactly at the first RDB byte, the request is PSYNC <runid> <offset+1>
func VF_C05_PSyncFull() {
	style := vfParam("style", 0)
	rid := vfToken("rid", 2)
	od := vfDigitsN("off", 2)
	nd := vfDigitsN("n", 1)
	var s []byte
	nlv := vfPick("nl", 3)
	if nlv == 1 {
		s = append(s, '\n')
	}
	s = append(s, '+')
	s = append(s, vfCase("fullresync", style)...)
	s = append(s, ' ')
	s = append(s, rid...)
	s = append(s, ' ')
	s = append(s, od...)
	s = append(s, '\r', '\n')
	if nlv == 2 {
		s = append(s, '\n')
	}
	s = append(s, '$')
	s = append(s, nd...)
	s = append(s, '\r', '\n')
	hdr := len(s)
	rest := vfBytes("rest", 3)
	s = append(s, rest...)
	f := &vfFrag{data: s, coarse: true}
	br := bufio.NewReaderSize(f, 16)
	var out bytes.Buffer
	bw := bufio.NewWriter(&out)
	in := []int64{-1, 0, 99}[vfPick("inoff", 3)]
	runid, offset, wait, err := SendPSyncContinue(br, bw, "oldrun", in)
	vfAssert(err == nil && wait != nil, "FULLRESYNC reply not recognised")
	if err != nil || wait == nil {
		return
	}
	vfAssert(vfEqStr(runid, string(rid)), "run id differs from the one the source announced")
	vfAssert(offset == vfDecimal(od), "offset differs from the one the source announced")
	var size int64
	for size == 0 {
		size = <-wait
	}
	vfAssert(size == vfDecimal(nd), "RDB size differs from the header")
	// the bytes after the header are still there, in order, nothing lost or duplicated
	got := make([]byte, 3)
	k := 0
	for k < 3 {
		n, e := br.Read(got[k:])
		vfAssert(e == nil, "read after the header failed")
		k += n
	}
	vfAssert(vfEqBytes(got, rest), "bytes following the '$n' header are not delivered intact to the RDB consumer")
	_ = hdr
	// request
	want := redis.MustEncodeToBytes(redis.NewCommand("psync", "oldrun", vfNext(in)))
	vfAssert(len(out.Bytes()) == len(want) && vfEqBytes(out.Bytes(), want), "request is not PSYNC <runid> <offset+1>")
	vfAssertTwin(size == 0, "twin")
}

func vfNext(in int64) int64 {
	if in == -1 {
		return -1
	}
	return in + 1
}

// +CONTINUE keeps the caller's run id and offset, and asks for offset+1
func VF_C05_PSyncContinue() {
	style := vfParam("style", 0)
	var s []byte
	s = append(s, '+')
	s = append(s, vfCase("continue", style)...)
	s = append(s, '\r', '\n')
	s = append(s, vfBytes("rest", 2)...)
	f := &vfFrag{data: s, coarse: true}
	br := bufio.NewReaderSize(f, 16)
	var out bytes.Buffer
	bw := bufio.NewWriter(&out)
	in := vfInt64("inoff")
	vfAssume(in >= 0)
	vfAssume(in < 1200)
	runid, offset, wait, err := SendPSyncContinue(br, bw, "run-1", in)
	vfAssert(err == nil && wait == nil, "CONTINUE reply not recognised")
	vfAssert(runid == "run-1" && offset == in, "CONTINUE must keep the caller's run id and offset")
	want := redis.MustEncodeToBytes(redis.NewCommand("psync", "run-1", in+1))
	vfAssert(len(out.Bytes()) == len(want) && vfEqBytes(out.Bytes(), want), "re-established connection does not ask for PSYNC runid offset+1")
	_ = strconv.Itoa
	vfAssertTwin(err != nil, "twin")
}
