package redis

// Encoder self-validation: this package's own unit tests executed by the engine (see
// pkg/rdb/zz_vf_self.go).
//
//vf:tests decoder_test.go encoder_test.go
//vf:job C10 quick VF_Self_RedisTests test=0..5
//vf:job C10 quick VF_Self_RedisTests test=7..11
//vf:job C10 quick VF_Self_RedisTests test=6 opt_maxsteps=400000000
//vf:outside C10 self-validation skips server_test.go (reflection-based handler table)

import "testing"

var vfSelfTests = []func(*testing.T){
	TestDecodeInvalidRequests, TestDecodeSimpleRequest1, TestDecodeSimpleRequest2, TestDecodeSimpleRequest3,
	TestDecodeBulkBytes, TestDecoder, TestItos, TestEncodeString, TestEncodeError, TestEncodeInt,
	TestEncodeBulkBytes, TestEncodeArray,
}

func VF_Self_RedisTests() {
	i := vfParam("test", 0)
	vfSelfTests[i](new(testing.T)) // the tests report through assert.Must / MustNoError, which abort the run
	vfAssertTwin(i < 0, "twin")
}
