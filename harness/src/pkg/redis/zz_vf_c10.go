package redis

// C10 — RESP codec round-trips, rejects malformed input, counts bytes exactly.
//
//vf:job C10 quick VF_C10_RoundTrip shape=0..17 nl=0..1
//vf:job C10 thorough VF_C10_RoundTrip shape=0..17 nl=2
//vf:job C10 quick VF_C10_IntRoundTrip r=0..5
//vf:job C10 quick VF_C10_IntText tmpl=0..7
//vf:job C10 quick VF_C10_Retained shape=0..8
//vf:job C10 quick VF_C10_Inline words=1..3 nl=0..1
//vf:job C10 quick VF_C10_BadCR shape=0..7
//vf:job C10 quick VF_C10_BadLF shape=0..7
//vf:job C10 quick VF_C10_BadLength kind=0..1
//vf:job C10 quick VF_C10_NegLength kind=0..1
//vf:job C10 quick VF_C10_BadTypeInArray ctx=0..10
//vf:job C10 quick VF_C10_Truncated shape=0..9
//vf:job C10 quick VF_C10_ParseArgs n=0..3
//vf:assume C10 text lines (String/Error) do not contain LF; inline words contain no space, CR or LF and do not start with a RESP type byte
//vf:outside C10 payloads longer than 3 bytes, arrays longer than 3, nesting deeper than 3, integers outside the listed ranges, handler.go's reflection based handler table

import (
	"bufio"
	"bytes"
	"io"
	"strconv"
)

func vfText(tag string, n int) []byte {
	b := vfBytes(tag, n)
	for _, c := range b {
		vfAssume(c != '\n')
	}
	return b
}

func vfSmallInt(tag string) int64 {
	// symbolic in [-3,3]
	v := vfInt64(tag)
	vfAssume(v >= -3)
	vfAssume(v <= 3)
	return v
}

// vfShape builds the value tree of a skeleton; payload bytes and small integers are symbolic.
func vfShape(shape int) Resp {
	switch shape {
	case 0:
		return &String{vfText("s", 0)}
	case 1:
		return &String{vfText("s", 2)}
	case 2:
		return &Error{vfText("e", 1)}
	case 3:
		return &Error{vfText("e", 3)}
	case 4:
		return &Int{vfSmallInt("i")}
	case 5:
		return &BulkBytes{nil}
	case 6:
		return &BulkBytes{[]byte{}}
	case 7:
		return &BulkBytes{vfBytes("b", 1)}
	case 8:
		return &BulkBytes{vfBytes("b", 3)}
	case 9:
		return &Array{nil}
	case 10:
		return &Array{[]Resp{}}
	case 11:
		return &Array{[]Resp{&BulkBytes{vfBytes("b", 2)}}}
	case 12:
		return &Array{[]Resp{&BulkBytes{vfBytes("b", 1)}, &Int{vfSmallInt("i")}, &BulkBytes{nil}}}
	case 13:
		return &Array{[]Resp{&Array{[]Resp{&BulkBytes{vfBytes("b", 1)}}}, &String{vfText("s", 1)}}}
	case 14:
		return &Array{[]Resp{&Array{nil}, &Array{[]Resp{}}, &Error{vfText("e", 1)}}}
	case 15:
		return &Array{[]Resp{&Array{[]Resp{&Array{[]Resp{&Int{vfSmallInt("i")}}}}}}}
	case 16:
		return &Array{[]Resp{&BulkBytes{[]byte("SET")}, &BulkBytes{vfBytes("b", 2)}, &BulkBytes{vfBytes("c", 2)}}}
	case 17:
		return &Array{[]Resp{&BulkBytes{[]byte{}}, &String{vfText("s", 0)}}}
	}
	return nil
}

func vfBytesSame(a, b []byte) bool {
	if (a == nil) != (b == nil) {
		return false
	}
	if len(a) != len(b) {
		return false
	}
	return vfEqBytes(a, b)
}

// vfRespEqual compares two value trees (nil vs empty distinguished for bulk and array).
func vfRespEqual(a, b Resp) bool {
	switch x := a.(type) {
	case *String:
		y, ok := b.(*String)
		return ok && len(x.Value) == len(y.Value) && vfEqBytes(x.Value, y.Value)
	case *Error:
		y, ok := b.(*Error)
		return ok && len(x.Value) == len(y.Value) && vfEqBytes(x.Value, y.Value)
	case *Int:
		y, ok := b.(*Int)
		return ok && x.Value == y.Value
	case *BulkBytes:
		y, ok := b.(*BulkBytes)
		return ok && vfBytesSame(x.Value, y.Value)
	case *Array:
		y, ok := b.(*Array)
		if !ok || (x.Value == nil) != (y.Value == nil) || len(x.Value) != len(y.Value) {
			return false
		}
		r := true
		for i := range x.Value {
			r = vfAnd(r, vfRespEqual(x.Value[i], y.Value[i]))
		}
		return r
	}
	return false
}

func vfNewlines(n int) []byte {
	b := make([]byte, n)
	for i := range b {
		b[i] = '\n'
	}
	return b
}

// encode, surround with keep-alive newlines, follow with a second value, decode both
func VF_C10_RoundTrip() {
	shape := vfParam("shape", 0)
	nl := vfParam("nl", 0)
	v := vfShape(shape)
	enc, err := EncodeToBytes(v)
	vfAssert(err == nil, "encode failed")
	if err != nil {
		return
	}
	second := []byte(":7\r\n")
	var stream []byte
	stream = append(stream, vfNewlines(nl)...)
	stream = append(stream, enc...)
	stream = append(stream, vfNewlines(nl)...)
	stream = append(stream, second...)
	under := bytes.NewReader(stream)
	d := NewDecoder(bufio.NewReader(under))
	// through the exported entry point of the replication parser: a decode
	// error aborts there, which is reported as a violation
	r1, off1 := MustDecodeOpt(d)
	vfAssert(vfRespEqual(v, r1), "decoded value differs from the encoded one")
	vfAssert(off1 == int64(nl+len(enc)), "decoder position differs from the bytes consumed (first value)")
	r2, off2 := MustDecodeOpt(d)
	i2, ok := r2.(*Int)
	vfAssert(ok && i2.Value == 7, "the value following in the stream is not decoded intact")
	vfAssert(off2 == int64(len(stream)), "decoder position differs from the bytes consumed (second value)")
	// plain Decode consumes exactly the value's bytes from a reader positioned at it
	br := bufio.NewReader(bytes.NewReader(append(append([]byte{}, enc...), second...)))
	r3, err3 := Decode(br)
	vfAssert(err3 == nil && vfRespEqual(v, r3), "Decode differs")
	r4, err4 := Decode(br)
	i4, ok4 := r4.(*Int)
	vfAssert(err4 == nil && ok4 && i4.Value == 7, "Decode left the rest of the stream disturbed")
	vfAssertTwin(off1 != int64(nl+len(enc)), "twin")
}

// vfChunkReader hands out the stream in the given chunks (network reads)
type vfChunkReader struct {
	chunks [][]byte
	next   int
}

func (c *vfChunkReader) Read(p []byte) (int, error) {
	if c.next >= len(c.chunks) {
		return 0, io.EOF
	}
	n := copy(p, c.chunks[c.next])
	if n < len(c.chunks[c.next]) {
		c.chunks[c.next] = c.chunks[c.next][n:]
	} else {
		c.next++
	}
	return n, nil
}

// a decoded value stays the same value while the stream is read further (second value arrives in a
// later network read through a small buffer, so the reader's buffer is refilled and reused)
func VF_C10_Retained() {
	var v Resp
	switch vfParam("shape", 0) {
	case 0:
		v = &String{vfText("s", 2)}
	case 1:
		v = &Error{vfText("e", 3)}
	case 2:
		v = &BulkBytes{vfBytes("b", 3)}
	case 3:
		v = &Array{[]Resp{&String{vfText("s", 1)}, &BulkBytes{vfBytes("b", 2)}}}
	case 4:
		v = &Array{[]Resp{&Error{vfText("e", 2)}, &Int{vfSmallInt("i")}}}
	case 5:
		v = &Int{vfSmallInt("i")}
	case 6:
		v = &Array{[]Resp{&BulkBytes{vfBytes("b", 1)}, &String{vfText("s", 2)}, &BulkBytes{vfBytes("c", 1)}}}
	case 7:
		v = &BulkBytes{[]byte{}}
	case 8:
		v = &Array{[]Resp{&Array{[]Resp{&String{vfText("s", 2)}}}}}
	}
	enc, err := EncodeToBytes(v)
	vfAssert(err == nil, "encode failed")
	second := &BulkBytes{vfBytes("z", 20)}
	enc2, _ := EncodeToBytes(second)
	rd := &vfChunkReader{chunks: [][]byte{enc, enc2[:9], enc2[9:]}}
	d := NewDecoder(bufio.NewReaderSize(rd, 16))
	r1, _ := MustDecodeOpt(d)
	vfAssert(vfRespEqual(v, r1), "decoded value differs right after decoding")
	r2, _ := MustDecodeOpt(d)
	vfAssert(vfRespEqual(second, r2), "second value differs")
	vfAssert(vfRespEqual(v, r1), "a decoded value changed when the stream was read further")
	vfAssertTwin(!vfRespEqual(second, r2), "twin")
}

var vfIntRanges = [][2]int64{{-1030, -1018}, {524280, 524295}, {-3, 3}}
var vfIntEdges = []int64{-9223372036854775808, -9223372036854775807, 9223372036854775806, 9223372036854775807, 2147483647, 2147483648, -2147483648, -2147483649, 4294967295, 4294967296, 1000000000000, -1000000000000}

// integers across the pre-rendered table boundaries and at the 32/64-bit edges
func VF_C10_IntRoundTrip() {
	r := vfParam("r", 0)
	var n int64
	if r < len(vfIntRanges) {
		n = vfInt64("n")
		vfAssume(n >= vfIntRanges[r][0])
		vfAssume(n <= vfIntRanges[r][1])
	} else {
		// 3: first four edges, 4: next four, 5: last four
		k := vfPick("edge", 4)
		n = vfIntEdges[(r-3)*4+k]
	}
	enc, err := EncodeToBytes(&Int{n})
	vfAssert(err == nil, "encode failed")
	d := NewDecoder(bufio.NewReader(bytes.NewReader(enc)))
	v, off := MustDecodeOpt(d)
	iv, ok := v.(*Int)
	vfAssert(ok && iv.Value == n, "integer does not round-trip")
	vfAssert(off == int64(len(enc)), "decoder position differs from the bytes consumed")
	// the same integer as bulk length prefix semantics: itos must agree with FormatInt
	vfAssertTwin(iv.Value != n, "twin")
}

func vfWord(tag string, n int, first bool) []byte {
	w := vfBytes(tag, n)
	for i, c := range w {
		vfAssume(c != ' ')
		vfAssume(c != '\r')
		vfAssume(c != '\n')
		if first && i == 0 {
			vfAssume(c != '+')
			vfAssume(c != '-')
			vfAssume(c != ':')
			vfAssume(c != '$')
			vfAssume(c != '*')
		}
	}
	return w
}

// inline (space separated) command lines are accepted at top level
func VF_C10_Inline() {
	nw := vfParam("words", 1)
	nl := vfParam("nl", 0)
	var words [][]byte
	var line []byte
	for i := 0; i < nw; i++ {
		w := vfWord("w", 1+i%2, i == 0)
		words = append(words, w)
		if i > 0 {
			line = append(line, ' ')
		}
		line = append(line, w...)
	}
	line = append(line, '\r', '\n')
	stream := append(vfNewlines(nl), line...)
	stream = append(stream, ":7\r\n"...)
	d := NewDecoder(bufio.NewReader(bytes.NewReader(stream)))
	r, off := MustDecodeOpt(d)
	a, ok := r.(*Array)
	vfAssert(ok && len(a.Value) == nw, "inline command: wrong number of words")
	if !ok || len(a.Value) != nw {
		return
	}
	same := true
	for i := range words {
		b, okb := a.Value[i].(*BulkBytes)
		same = vfAnd(same, okb && len(b.Value) == len(words[i]) && vfEqBytes(b.Value, words[i]))
	}
	vfAssert(same, "inline command: words differ")
	vfAssert(off == int64(nl+len(line)), "decoder position after an inline command differs from the bytes consumed")
	r2, off2 := MustDecodeOpt(d)
	i2, ok2 := r2.(*Int)
	vfAssert(ok2 && i2.Value == 7 && off2 == int64(len(stream)), "value after an inline command not decoded intact / position wrong")
	vfAssertTwin(off != int64(nl+len(line)), "twin")
}

// concrete shapes for the corruption families (payload bytes symbolic)
func vfNoCR(b []byte) []byte {
	for _, c := range b {
		vfAssume(c != '\r')
	}
	return b
}

func vfCorruptBase(shape int) []byte {
	var v Resp
	switch shape {
	case 0:
		v = &String{vfNoCR(vfText("s", 1))}
	case 1:
		v = &Error{vfNoCR(vfText("e", 2))}
	case 2:
		v = &Int{vfSmallInt("i")}
	case 3:
		v = &BulkBytes{vfNoCR(vfBytes("b", 2))}
	case 4:
		v = &BulkBytes{[]byte{}}
	case 5:
		v = &Array{[]Resp{&BulkBytes{vfNoCR(vfBytes("b", 1))}, &Int{vfSmallInt("i")}}}
	case 6:
		v = &Array{[]Resp{}}
	case 7:
		v = &Array{[]Resp{&Array{[]Resp{&String{vfNoCR(vfText("s", 1))}}}}}
	case 8:
		v = &BulkBytes{nil}
	case 9:
		v = &Array{nil}
	}
	b, err := EncodeToBytes(v)
	if err != nil {
		vfFail("encode failed")
	}
	return b
}

func vfDecodeAll(stream []byte) (Resp, error) {
	return Decode(bufio.NewReader(bytes.NewReader(stream)))
}

// every CR of the encoding replaced (one at a time, position chosen symbolically) by another byte
func VF_C10_BadCR() {
	enc := vfCorruptBase(vfParam("shape", 0))
	var pos []int
	for i := 0; i+1 < len(enc); i++ {
		// payload bytes are assumed not to be CR, so CR LF pairs are exactly the structural ones
		if enc[i] == '\r' && enc[i+1] == '\n' {
			pos = append(pos, i)
		}
	}
	p := pos[vfPick("which", len(pos))]
	x := vfByte("x")
	vfAssume(x != '\r')
	enc[p] = x
	_, err := vfDecodeAll(enc)
	vfAssert(err != nil, "a line whose CR is replaced decodes to a value")
	vfAssertTwin(err == nil, "twin")
}

func VF_C10_BadLF() {
	enc := vfCorruptBase(vfParam("shape", 0))
	var pos []int
	for i := 0; i+1 < len(enc); i++ {
		if enc[i] == '\r' && enc[i+1] == '\n' {
			pos = append(pos, i+1)
		}
	}
	p := pos[vfPick("which", len(pos))]
	x := vfByte("x")
	vfAssume(x != '\n')
	enc[p] = x
	_, err := vfDecodeAll(enc)
	vfAssert(err != nil, "a line whose LF is replaced decodes to a value")
	vfAssertTwin(err == nil, "twin")
}

// non numeric length text
func VF_C10_BadLength() {
	kind := vfParam("kind", 0)
	x := vfByte("x")
	vfAssume(x < '0' || x > '9')
	vfAssume(x != '+')
	vfAssume(x != '-')
	vfAssume(x != '\n')
	var s []byte
	place := vfPick("place", 3)
	digits := []byte{'1', x, '2'}
	switch place {
	case 0:
		digits = []byte{x}
	case 1:
		digits = []byte{x, '1'}
	}
	if kind == 0 {
		s = append([]byte{'$'}, digits...)
		s = append(s, "\r\na\r\n"...)
	} else {
		s = append([]byte{'*'}, digits...)
		s = append(s, "\r\n:1\r\n"...)
	}
	_, err := vfDecodeAll(s)
	vfAssert(err != nil, "a non-numeric length decodes to a value")
	vfAssertTwin(err == nil, "twin")
}

// lengths below -1
func VF_C10_NegLength() {
	kind := vfParam("kind", 0)
	n := vfByte("n")
	vfAssume(n >= '2')
	vfAssume(n <= '9')
	t := byte('$')
	if kind == 1 {
		t = '*'
	}
	s := []byte{t, '-', n, '\r', '\n'}
	_, err := vfDecodeAll(s)
	vfAssert(err != nil, "a length below -1 decodes to a value")
	s2 := []byte{t, '-', '1', n, '\r', '\n'}
	_, err2 := vfDecodeAll(s2)
	vfAssert(err2 != nil, "a length below -1 decodes to a value")
	vfAssertTwin(err == nil, "twin")
}

// an unknown type byte inside an array
// vfBadTypeCtx: array encodings with one hole (marked by 0) at which an element starts — first,
// middle and last positions, inside a nested array, and after a nested array (empty, nil,
// non-empty, doubly nested) has been closed
var vfBadTypeCtx = []string{
	"*2\r\n:1\r\n\x00",
	"*1\r\n\x00",
	"*2\r\n\x00:1\r\n",
	"*3\r\n$1\r\na\r\n\x00+b\r\n",
	"*1\r\n*1\r\n\x00",
	"*2\r\n*1\r\n:1\r\n\x00",
	"*2\r\n*0\r\n\x00",
	"*2\r\n*-1\r\n\x00",
	"*2\r\n*1\r\n*0\r\n\x00",
	"*2\r\n*2\r\n*0\r\n\x00:1\r\n:2\r\n",
	"*3\r\n*0\r\n:1\r\n\x00",
}

func VF_C10_BadTypeInArray() {
	ctx := vfBadTypeCtx[vfParam("ctx", 0)]
	x := vfByte("x")
	vfAssume(x != '+')
	vfAssume(x != '-')
	vfAssume(x != ':')
	vfAssume(x != '$')
	vfAssume(x != '*')
	vfAssume(x != '\n')
	var s []byte
	for i := 0; i < len(ctx); i++ {
		if ctx[i] == 0 {
			s = append(s, x, 'a', '\r', '\n')
		} else {
			s = append(s, ctx[i])
		}
	}
	_, err := vfDecodeAll(s)
	vfAssert(err != nil, "an unknown type byte inside an array decodes to a value")
	vfAssertTwin(err == nil, "twin")
}

// truncation at every cut point
func VF_C10_Truncated() {
	enc := vfCorruptBase(vfParam("shape", 0))
	cut := vfPick("cut", len(enc))
	_, err := vfDecodeAll(enc[:cut])
	vfAssert(err != nil, "a truncated encoding decodes to a value")
	vfAssertTwin(err == nil, "twin")
}

// command extraction
func VF_C10_ParseArgs() {
	n := vfParam("n", 1)
	cmd := vfBytes("cmd", 2)
	vfAssume(cmd[0] != 0)
	args := make([][]byte, n)
	for i := range args {
		args[i] = vfBytes("arg", 1+i%2)
	}
	resp := ChangeArgsToResp(cmd, args)
	enc, err := EncodeToBytes(resp)
	vfAssert(err == nil, "encode failed")
	dec, err := vfDecodeAll(enc)
	vfAssert(err == nil, "decode failed")
	c, a, err := ParseArgs(dec)
	vfAssert(err == nil, "ParseArgs failed on a well-formed command")
	if err != nil {
		return
	}
	lower := make([]byte, len(cmd))
	for i, ch := range cmd {
		lower[i] = vfIteByte(vfAnd(ch >= 'A', ch <= 'Z'), ch+32, ch)
	}
	isASCII := vfAnd(cmd[0] < 0x80, cmd[1] < 0x80)
	vfAssert(vfImplies(isASCII, vfEqStr(c, string(lower))), "command name is not the lower-cased first element")
	ok := len(a) == n
	for i := 0; ok && i < n; i++ {
		ok = vfAnd(ok, vfBytesSame(a[i], args[i]))
	}
	vfAssert(ok, "arguments differ")
	vfAssertTwin(len(a) != n, "twin")
}

// integer replies around the ends of the 64-bit range: the text is a template with one or two
// symbolic characters; the decoder must return a value exactly when the text is a decimal int64
// (strconv.ParseInt, trusted, is the reference) and an error otherwise, never a wrapped value
func VF_C10_IntText() {
	tm := [][2]string{
		{"922337203685477580", ""},  // + 1 digit: ..0-7 fit, 8 and 9 do not
		{"-922337203685477580", ""}, // + 1 digit: ..0-8 fit, 9 does not
		{"92233720368547758", "7"},  // one symbolic character in the middle
		{"", "223372036854775807"},  // leading character symbolic: 9 fits, sign characters, other digits
		{"+922337203685477580", ""}, // explicit plus sign
		{"1844674407370955161", ""}, // 2^64 neighbourhood: wraps to small values in 64-bit arithmetic
		{"-", "223372036854775808"}, // second character symbolic
		{"99999999999999999", ""},   // + 2 symbolic characters
	}[vfParam("tmpl", 0)]
	n := 1
	if vfParam("tmpl", 0) == 7 {
		n = 2
	}
	text := append(append([]byte(tm[0]), vfBytes("c", n)...), tm[1]...)
	for _, c := range text[len(tm[0]) : len(tm[0])+n] {
		vfAssume(c != '\r')
		vfAssume(c != '\n')
	}
	enc := append(append([]byte(":"), text...), '\r', '\n')
	want, werr := strconv.ParseInt(string(text), 10, 64)
	v, err := Decode(bufio.NewReader(bytes.NewReader(enc)))
	vfAssert((err == nil) == (werr == nil), "an integer reply outside the 64-bit range (or not a number) must be an error, one inside must decode")
	if err == nil && werr == nil {
		iv, ok := v.(*Int)
		vfAssert(ok && iv.Value == want, "integer reply decoded to another value")
		_, off := MustDecodeOpt(NewDecoder(bufio.NewReader(bytes.NewReader(enc))))
		vfAssert(off == int64(len(enc)), "decoder position differs from the bytes consumed")
	}
	vfAssertTwin(len(enc) == 0, "twin")
}
