package rdb

// C01 — RDB parsing delivers every key exactly, whatever its encoding.
//
//vf:job C01 quick VF_C01_Load sk=0..27 attr=0..3
//vf:job C01 quick VF_C01_Meta sk=0..7
//vf:job C01 quick VF_C01_FooterRejects pos=0..7
//vf:job C01 quick VF_C01_FooterRejects pos=3 ver=5..8
//vf:job C11 quick VF_C01_FooterRejects pos=0..7
//vf:job C11 quick VF_C01_FooterRejects pos=0,7 ver=5..8
//vf:job C11 quick VF_C01_ShortReads mode=0..2
//vf:job C01 quick VF_C01_ShortReads mode=0..2
//vf:job C01 quick VF_C01_HeaderVersion
//vf:job C01 thorough VF_C01_Load sk=0..27 attr=4..5 big=1
//vf:assume C01 the reference writer in the harness follows rdb.c; the DUMP checksum on the oracle side is computed with the tool's own digest over the same byte terms (that this digest is the Redis CRC-64 is C11)
//vf:outside C01 LZF payloads other than the three hand-built compressed forms; module values (types 6/7); strings longer than 3 bytes; more than 3 elements per collection; more than 3 keys; chunked hashes other than 2..4 members of 16 MiB or 3 bytes

import (
	"bytes"
	"io"
)

// vfForm picks a length form legal for small values: 0 (6 bit), 1 (14 bit), 2 (32 bit).
func vfForm(tag string) int { return vfPick(tag, 3) }

func vfScoreText(w *vfW, which int) {
	switch which {
	case 0:
		w.b(253)
	case 1:
		w.b(254)
	case 2:
		w.b(255)
	default:
		// ascii text of 1..3 digit bytes (content symbolic digits)
		n := 1 + which%3
		w.b(byte(n))
		for i := 0; i < n; i++ {
			d := vfByte("digit")
			vfAssume(d >= '0')
			vfAssume(d <= '9')
			w.b(d)
		}
	}
}

func vfU64(tag string) uint64 { return vfUint64(tag) }

// vfValue emits the value body of skeleton sk and returns its type byte.
func vfValue(w *vfW, sk int, n int) (typ byte, body func()) {
	switch sk {
	case 0: // raw string, any of the three short length forms
		return RdbTypeString, func() { w.str(vfBytes("v", n), vfForm("form")) }
	case 1:
		return RdbTypeString, func() { w.strInt8(int8(vfByte("i8"))) }
	case 2:
		return RdbTypeString, func() { w.strInt16(int16(vfUint16("i16"))) }
	case 3:
		return RdbTypeString, func() {
			v := int32(vfUint32("i32"))
			// the decimal rendering of a wide symbolic integer is case-split to keep division terms small
			vfAssume(vfOr(vfAnd(v >= -130, v <= 130), vfOr(v >= 2147483640, v <= -2147483640)))
			w.strInt32(v)
		}
	case 4: // LZF literal run
		return RdbTypeString, func() { w.strLZF(append([]byte{byte(n - 1)}, vfBytes("z", n)...), n, 0) }
	case 5: // LZF literal + back reference
		return RdbTypeString, func() { w.strLZF(append(append([]byte{1}, vfBytes("z", 2)...), 0x20, 1), 5, vfForm("form")) }
	case 6: // LZF long, overlapping back reference
		return RdbTypeString, func() { w.strLZF(append(append([]byte{0}, vfBytes("z", 1)...), 0xe0, 0, 0), 10, 0) }
	case 7:
		return RdbTypeList, func() {
			w.length(uint64(n), vfForm("form"))
			for i := 0; i < n; i++ {
				w.str(vfBytes("e", 1+i%2), 0)
			}
		}
	case 8:
		return RdbTypeSet, func() {
			w.length(uint64(n), 0)
			for i := 0; i < n; i++ {
				if i == 1 {
					w.strInt8(int8(vfByte("i8")))
				} else {
					w.str(vfBytes("e", 2), vfForm("form"))
				}
			}
		}
	case 9:
		return RdbTypeZSet, func() {
			w.length(uint64(n), 0)
			for i := 0; i < n; i++ {
				w.str(vfBytes("m", 1), 0)
				vfScoreText(w, vfPick("score", 6))
			}
		}
	case 10:
		return RdbTypeZSet2, func() {
			w.length(uint64(n), vfForm("form"))
			for i := 0; i < n; i++ {
				w.str(vfBytes("m", 1), 0)
				w.b(vfBytes("score", 8)...)
			}
		}
	case 11:
		return RdbTypeHash, func() {
			w.length(uint64(n), vfForm("form"))
			for i := 0; i < n; i++ {
				w.str(vfBytes("f", 1), 0)
				w.str(vfBytes("v", 2), 0)
			}
		}
	case 12:
		return RdbTypeHashZipmap, func() { w.str(vfBytes("blob", 3), vfForm("form")) }
	case 13:
		return RdbTypeListZiplist, func() { w.str(vfBytes("blob", 3), vfForm("form")) }
	case 14:
		return RdbTypeSetIntset, func() { w.str(vfBytes("blob", 3), 0) }
	case 15:
		return RdbTypeZSetZiplist, func() { w.str(vfBytes("blob", 2), 1) }
	case 16:
		return RdbTypeHashZiplist, func() { w.str(vfBytes("blob", 2), 2) }
	case 17:
		return RdbTypeQuicklist, func() {
			w.length(uint64(n), 0)
			for i := 0; i < n; i++ {
				w.str(vfBytes("node", 2), vfForm("form"))
			}
		}
	case 18: // LZF compressed ziplist blob
		return RdbTypeHashZiplist, func() { w.strLZF(append([]byte{2}, vfBytes("z", 3)...), 3, 0) }
	case 19: // stream: one listpack, no group
		return RDBTypeStreamListPacks, func() {
			w.length(1, 0)
			w.str(vfBytes("sid", 3), 0)
			w.str(vfBytes("lp", 2), vfForm("form"))
			w.length(uint64(vfUint32("items")), 2)
			w.length(vfU64("ms"), 3)
			w.length(vfU64("seq"), 3)
			w.length(0, 0)
		}
	case 20: // stream: group with pending entry and consumer
		return RDBTypeStreamListPacks, func() {
			w.length(uint64(n), 0)
			for i := 0; i < n; i++ {
				w.str(vfBytes("sid", 2), 0)
				w.str(vfBytes("lp", 1), 0)
			}
			w.length(1, 0)
			w.length(vfU64("ms"), 3)
			w.length(uint64(vfByte("seq")&0x3f), 0)
			w.length(1, vfForm("form")) // groups
			w.str(vfBytes("g", 1), 0)
			w.length(vfU64("gms"), 3)
			w.length(vfU64("gseq"), 3)
			w.length(1, 0) // global PEL
			w.b(vfBytes("eid", 16)...)
			w.b(vfBytes("dt", 8)...)
			w.length(uint64(vfByte("dc")&0x3f), 0)
			w.length(1, 0) // consumers
			w.str(vfBytes("c", 1), 0)
			w.b(vfBytes("seen", 8)...)
			w.length(1, 0)
			w.b(vfBytes("ceid", 16)...)
		}
	case 21: // empty collections
		return RdbTypeList, func() { w.length(0, vfForm("form")) }
	case 22:
		return RdbTypeHash, func() { w.length(0, 0) }
	case 23: // empty string value
		return RdbTypeString, func() { w.str(nil, vfForm("form")) }
	case 24: // zset with text scores of every kind in one value
		return RdbTypeZSet, func() {
			w.length(3, 0)
			for i := 0; i < 3; i++ {
				w.str(vfBytes("m", 1), 0)
				vfScoreText(w, i+2)
			}
		}
	case 25: // stream with two groups, no pending
		return RDBTypeStreamListPacks, func() {
			w.length(0, 0)
			w.length(0, 0)
			w.length(0, 0)
			w.length(0, 0)
			w.length(2, 0)
			for i := 0; i < 2; i++ {
				w.str(vfBytes("g", 1), 0)
				w.length(vfU64("gms"), 3)
				w.length(uint64(vfByte("gseq")&0x3f), 0)
				w.length(0, 0)
				w.length(0, 0)
			}
		}
	case 26: // list of integer-encoded strings
		return RdbTypeList, func() {
			w.length(2, 0)
			w.strInt16(int16(vfUint16("i16")))
			w.strInt8(int8(vfByte("i8")))
		}
	case 27: // hash with an LZF value
		return RdbTypeHash, func() {
			w.length(1, 0)
			w.str(vfBytes("f", 1), 0)
			w.strLZF(append([]byte{1}, vfBytes("z", 2)...), 2, 0)
		}
	}
	return 0, nil
}

func vfCheckRecord(e *BinEntry, err error, r vfRec) {
	vfAssert(err == nil, "NextBinEntry returned an error on a well-formed stream")
	vfAssert(e != nil, "NextBinEntry returned no record where a key is stored")
	if err != nil || e == nil {
		return
	}
	vfAssert(e.DB == r.db, "record carries the wrong database number")
	vfAssert(len(e.Key) == len(r.key) && vfEqBytes(e.Key, r.key), "record carries the wrong key")
	vfAssert(e.Type == r.typ, "record carries the wrong type")
	if r.lua {
		vfAssert(len(e.Value) == len(r.raw) && vfEqBytes(e.Value, r.raw), "script record does not carry the script body")
		return
	}
	vfAssert(e.ExpireAt == r.expire, "record carries the wrong expiry")
	vfAssert(e.IdleTime == r.idle, "record carries the wrong idle hint")
	vfAssert(e.Freq == r.freq, "record carries the wrong freq hint")
	want := vfDumpOf(r.typ, r.raw)
	vfAssert(len(e.Value) == len(want), "payload length differs from type+serialized bytes+trailer")
	if len(e.Value) == len(want) {
		vfAssert(vfEqBytes(e.Value, want), "payload is not byte-for-byte type || serialized value || version || CRC-64")
	}
	vfAssert(e.NeedReadLen == 1 && e.RealMemberCount == 0, "unsplit value carries chunk markers")
}

func vfRunLoader(w *vfW) {
	l := NewLoader(bytes.NewReader(w.buf))
	vfAssert(l.Header() == nil, "well-formed header rejected")
	for _, r := range w.recs {
		e, err := l.NextBinEntry()
		vfCheckRecord(e, err, r)
	}
	e, err := l.NextBinEntry()
	vfAssert(e == nil && err == nil, "extra record or error after the last key")
	ferr := l.Footer()
	vfAssert(ferr == nil, "end-of-file checksum of an intact stream does not verify")
	vfAssertTwin(ferr != nil, "twin")
}

func vfAttrs(w *vfW, attr int) {
	switch attr {
	case 1:
		w.expireMS(vfUint64("exp"))
	case 2:
		w.expireS(vfUint32("exps"))
	case 3:
		w.expireMS(vfUint64("exp"))
		w.idleOp(vfUint32("idle"), 2)
		w.freqOp(vfByte("freq"))
	case 4:
		w.idleOp(uint32(vfByte("idle")&0x3f), 0)
	case 5:
		w.freqOp(vfByte("freq"))
		w.expireS(vfUint32("exps"))
	}
}

// one key of every value skeleton, with every attribute variant, in a selected database
func VF_C01_Load() {
	sk := vfParam("sk", 0)
	attr := vfParam("attr", 0)
	n := 2 + vfParam("big", 0)
	w := &vfW{}
	v := vfByte("ver")
	vfAssume(v >= '1')
	vfAssume(v <= '9')
	w.header(v)
	w.selectDB(vfUint32("db"), 2)
	vfAttrs(w, attr)
	typ, body := vfValue(w, sk, n)
	if body == nil {
		return
	}
	w.key(typ, vfBytes("key", 2), nil, body)
	w.eof()
	vfRunLoader(w)
}

// metadata, several keys/databases, encoded keys
func VF_C01_Meta() {
	sk := vfParam("sk", 0)
	w := &vfW{}
	w.header('9')
	strBody := func(tag string) func() { return func() { w.str(vfBytes(tag, 1), 0) } }
	switch sk {
	case 0: // aux + resize + select, then a key: nothing is disturbed
		w.aux([]byte("redis-ver"), vfBytes("auxv", 3))
		w.aux(vfBytes("auxk", 2), vfBytes("auxv2", 1))
		w.selectDB(uint32(vfByte("db")&0x3f), 0)
		w.resize(vfUint32("r1"), uint32(vfUint16("r2")&0x3fff), 2)
		w.key(RdbTypeString, vfBytes("key", 1), nil, strBody("v"))
	case 1: // two databases, three keys, attributes bound to the right key
		w.selectDB(uint32(vfUint16("db1")&0x3fff), 1)
		w.key(RdbTypeString, vfBytes("k1", 1), nil, strBody("v1"))
		w.expireMS(vfUint64("exp"))
		w.key(RdbTypeString, vfBytes("k2", 1), nil, strBody("v2"))
		w.selectDB(vfUint32("db2"), 2)
		w.idleOp(vfUint32("idle"), 2)
		w.key(RdbTypeList, vfBytes("k3", 2), nil, func() { w.length(1, 0); w.str(vfBytes("e", 1), 0) })
	case 2: // lua script aux between keys
		w.selectDB(3, 0)
		w.key(RdbTypeString, vfBytes("k1", 1), nil, strBody("v1"))
		w.aux([]byte("lua"), vfBytes("script", 3))
		w.key(RdbTypeString, vfBytes("k2", 1), nil, strBody("v2"))
	case 3: // module aux with every opcode except FLOAT, then a key
		w.b(0xf7)
		w.length(vfUint64("modid"), 3)
		w.length(2, 0) // UINT
		w.length(vfUint64("mu"), 3)
		w.length(1, 0) // SINT
		w.length(uint64(vfUint32("ms")), 2)
		w.length(5, 0) // STRING
		w.str(vfBytes("mstr", 2), 0)
		w.length(4, 0) // DOUBLE
		w.b(vfBytes("mdbl", 8)...)
		w.length(0, 0) // EOF
		w.key(RdbTypeString, vfBytes("key", 1), nil, strBody("v"))
	case 4: // module aux with a FLOAT opcode (4 binary bytes), then a key
		w.b(0xf7)
		w.length(vfUint64("modid"), 3)
		w.length(3, 0) // FLOAT
		w.b(vfBytes("mflt", 4)...)
		w.length(0, 0)
		w.key(RdbTypeString, vfBytes("key", 1), nil, strBody("v"))
	case 5: // integer-encoded and LZF keys
		i8 := int8(vfByte("k8"))
		w.key(RdbTypeString, []byte{0xc0, byte(i8)}, vfItoa(int64(i8)), strBody("v1"))
		i16 := int16(vfUint16("k16"))
		w.key(RdbTypeString, []byte{0xc1, byte(i16), byte(uint16(i16) >> 8)}, vfItoa(int64(i16)), strBody("v2"))
		z := vfBytes("z", 2)
		comp := []byte{0xc3, 5, 5, 1, z[0], z[1], 0x20, 1}
		w.key(RdbTypeSet, comp, vfLZFRef(comp[3:], 5), func() { w.length(0, 0) })
	case 6: // no keys at all; empty database selector only
		w.selectDB(0, 0)
	case 7: // key with a 14-bit and a 32-bit key length form
		k := vfBytes("key", 2)
		w.b(RdbTypeString, 0x40, 2, k[0], k[1])
		w.b(0x80, 0, 0, 0, 1, vfConcByte(7))
		w.recs = append(w.recs, vfRec{db: 0, key: k, typ: RdbTypeString, raw: []byte{0x80, 0, 0, 0, 1, 7}})
	}
	w.eof()
	vfRunLoader(w)
}

// a stream whose trailer differs in one byte is rejected
func VF_C01_FooterRejects() {
	pos := vfParam("pos", 0)
	w := &vfW{}
	w.header(byte('0' + vfParam("ver", 9))) // every format version that carries a checksum: 5..9
	w.selectDB(0, 0)
	w.key(RdbTypeString, vfBytes("key", 1), nil, func() { w.str(vfBytes("v", 1), 0) })
	w.eof()
	i := len(w.buf) - 8 + pos
	x := vfByte("x")
	vfAssume(x != w.buf[i])
	w.buf[i] = x
	l := NewLoader(bytes.NewReader(w.buf))
	vfAssert(l.Header() == nil, "header")
	e, err := l.NextBinEntry()
	vfAssert(e != nil && err == nil, "key")
	e, err = l.NextBinEntry()
	vfAssert(e == nil && err == nil, "eof")
	vfAssert(l.Footer() != nil, "a stream with an altered checksum byte passes the end-of-file check")
	vfAssertTwin(l.Footer() == nil, "twin")
}

// versions 1..9 accepted, anything else rejected
func VF_C01_HeaderVersion() {
	d := vfBytes("ver", 4)
	for _, c := range d {
		vfAssume(c >= '0')
		vfAssume(c <= '9')
	}
	w := &vfW{}
	w.b('R', 'E', 'D', 'I', 'S')
	w.b(d...)
	l := NewLoader(bytes.NewReader(w.buf))
	err := l.Header()
	val := int(d[0]-'0')*1000 + int(d[1]-'0')*100 + int(d[2]-'0')*10 + int(d[3]-'0')
	vfAssert(vfImplies(vfAnd(val >= 1, val <= 9), err == nil), "supported version rejected")
	vfAssert(vfImplies(vfOr(val < 1, val > 9), err != nil), "unsupported version accepted")
	vfAssertTwin(err != nil, "twin")
}

// vfShort returns at most `max` bytes per Read (1 = one byte at a time, 0 = half of what is asked)
type vfShort struct {
	data []byte
	pos  int
	max  int
}

func (r *vfShort) Read(p []byte) (int, error) {
	if r.pos >= len(r.data) {
		return 0, io.EOF
	}
	n := len(p)
	if r.max == 0 {
		n = (n + 1) / 2
	} else if n > r.max {
		n = r.max
	}
	n = copy(p[:n], r.data[r.pos:])
	r.pos += n
	return n, nil
}

// the same intact stream loaded through readers that return short reads: the records and the
// end-of-file checksum must not depend on how the bytes are split across reads
func VF_C01_ShortReads() {
	mode := vfParam("mode", 0)
	w := &vfW{}
	w.header('9')
	w.selectDB(uint32(vfByte("db")&0x3f), 0)
	w.expireMS(vfUint64("exp"))
	w.key(RdbTypeHash, vfBytes("key", 2), nil, func() {
		w.length(2, 0)
		w.str(vfBytes("f", 1), 0)
		w.str(vfBytes("v", 3), 0)
		w.str(vfBytes("f", 2), 0)
		w.str(vfBytes("v", 1), 1)
	})
	w.key(RdbTypeString, vfBytes("k2", 1), nil, func() { w.strInt16(int16(vfUint16("i16"))) })
	w.eof()
	var src io.Reader
	switch mode {
	case 0:
		src = &vfShort{data: w.buf, max: 1}
	case 1:
		src = &vfShort{data: w.buf, max: 0}
	default:
		src = &vfShort{data: w.buf, max: 3}
	}
	l := NewLoader(src)
	vfAssert(l.Header() == nil, "header through short reads")
	for _, r := range w.recs {
		e, err := l.NextBinEntry()
		vfCheckRecord(e, err, r)
	}
	e, err := l.NextBinEntry()
	vfAssert(e == nil && err == nil, "extra record or error after the last key")
	ferr := l.Footer()
	vfAssert(ferr == nil, "end-of-file checksum of an intact stream depends on how the bytes are split across reads")
	vfAssertTwin(ferr != nil, "twin")
}
