package rdb

// C12 — value and RDB-file serialisation round-trips through the parser.
//
//vf:use compact
//vf:job C12 quick VF_C12_DumpRoundTrip kind=0..4 n=0..2
//vf:job C12 quick VF_C12_IntStrings len=1..3
//vf:job C12 quick VF_C12_Retained kind=0..3 kind2=0 n=1
//vf:job C12 quick VF_C12_Retained kind=0 kind2=1..3 n=1
//vf:job C12 thorough VF_C12_Retained kind=1..4 kind2=1..3 n=1
//vf:job C12 quick VF_C12_Compact t=0..7 n=1
//vf:job C12 quick VF_C12_Compact t=2..4 n=2
//vf:job C12 quick VF_C12_Compact t=6..7 n=2
//vf:job C12 thorough VF_C12_Compact t=0,1,5 n=2
//vf:job C12 quick VF_C12_File shape=0..2
//vf:job C12 quick VF_C12_EntryConv kind=0..4
//vf:job C12 quick VF_C12_LengthBoundary len=63,64
//vf:job C12 thorough VF_C12_LengthBoundary len=16383,16384
//vf:job C12 thorough VF_C12_DumpRoundTrip kind=0..4 n=3
//vf:job C12 thorough VF_C12_IntStrings len=4
//vf:assume C12 strconv.FormatFloat(f,'g',17)/ParseFloat round-trip every non-NaN float64 (IEEE guarantee of the Go library, trusted, not checked); NaN payload bits are not preserved by the text form and only NaN-ness is asserted
//vf:assume C12 payload CRCs on the oracle side are computed with the linked crc64 module over the same byte terms (C11)
//vf:outside C12 LZF beyond the hand-built forms; strings longer than 3 bytes (except the 63/64/16383/16384 length boundary family with concrete length); the 32-bit length boundary; zipmap items of 253 bytes and more

import (
	"bytes"
	"math"
	"strconv"

	"github.com/cupcake/rdb/crc64"
)

func vfBytesEq2(a, b []byte) bool { return len(a) == len(b) && vfEqBytes(a, b) }

func vfScoreSame(a, b float64) bool {
	return vfOr(vfAnd(math.IsNaN(a), math.IsNaN(b)), math.Float64bits(a) == math.Float64bits(b))
}

// vfObjEqual: same logical value, same element order
func vfObjEqual(a, b interface{}) bool {
	switch x := a.(type) {
	case String:
		y, ok := b.(String)
		return ok && vfBytesEq2(x, y)
	case List:
		y, ok := b.(List)
		if !ok || len(x) != len(y) {
			return false
		}
		r := true
		for i := range x {
			r = vfAnd(r, vfBytesEq2(x[i], y[i]))
		}
		return r
	case Set:
		y, ok := b.(Set)
		if !ok || len(x) != len(y) {
			return false
		}
		r := true
		for i := range x {
			r = vfAnd(r, vfBytesEq2(x[i], y[i]))
		}
		return r
	case Hash:
		y, ok := b.(Hash)
		if !ok || len(x) != len(y) {
			return false
		}
		r := true
		for i := range x {
			r = vfAnd(r, vfAnd(vfBytesEq2(x[i].Field, y[i].Field), vfBytesEq2(x[i].Value, y[i].Value)))
		}
		return r
	case ZSet:
		y, ok := b.(ZSet)
		if !ok || len(x) != len(y) {
			return false
		}
		r := true
		for i := range x {
			r = vfAnd(r, vfAnd(vfBytesEq2(x[i].Member, y[i].Member), vfScoreSame(x[i].Score, y[i].Score)))
		}
		return r
	}
	return false
}

func vfScore(tag string) float64 { return math.Float64frombits(vfUint64(tag)) }

// vfPlain: symbolic bytes that cannot look like an integer (the integer-looking
// space is covered by one fully symbolic string per value and by VF_C12_IntStrings)
func vfPlain(tag string, n int) []byte {
	b := vfBytes(tag, n)
	if n > 0 {
		vfAssume(b[0] >= 'A')
		vfAssume(b[0] <= 'Z')
	}
	return b
}

var vfFullUsed bool

func vfObject(kind, n int) interface{} {
	vfFullUsed = false
	s := func(tag string, i int) []byte {
		if !vfFullUsed {
			vfFullUsed = true
			return vfBytes(tag, (i+1)%3+1)
		}
		return vfPlain(tag, (i+1)%3+1)
	}
	switch kind {
	case 0:
		return String(vfBytes("s", n))
	case 1:
		l := List{}
		for i := 0; i < n; i++ {
			l = append(l, s("e", i))
		}
		return l
	case 2:
		l := Set{}
		for i := 0; i < n; i++ {
			l = append(l, s("m", i))
		}
		return l
	case 3:
		h := Hash{}
		for i := 0; i < n; i++ {
			h = append(h, &HashElement{Field: s("f", i), Value: s("v", i+1)})
		}
		return h
	}
	z := ZSet{}
	for i := 0; i < n; i++ {
		z = append(z, &ZSetElement{Member: s("m", i), Score: vfScore("score")})
	}
	return z
}

func vfEmptyLike(kind int) interface{} {
	switch kind {
	case 1:
		return List(nil)
	case 2:
		return Set(nil)
	case 3:
		return Hash(nil)
	case 4:
		return ZSet(nil)
	}
	return String(nil)
}

// decode(encode(v)) == v, for every content
func VF_C12_DumpRoundTrip() {
	kind := vfParam("kind", 0)
	n := vfParam("n", 1)
	obj := vfObject(kind, n)
	p, err := EncodeDump(obj)
	vfAssert(err == nil, "EncodeDump failed")
	if err != nil {
		return
	}
	back, err := DecodeDump(p)
	vfAssert(err == nil, "DecodeDump rejected a payload produced by EncodeDump")
	if err != nil {
		return
	}
	if n == 0 && kind != 0 {
		// an empty collection decodes to the empty collection of its kind
		vfAssert(vfObjEqual(vfEmptyLike(kind), back), "empty collection does not round-trip")
	} else {
		vfAssert(vfObjEqual(obj, back), "value does not round-trip through EncodeDump/DecodeDump")
	}
	vfAssertTwin(err != nil, "twin")
}

// a payload stays what it was while later values are serialised and decoded (batches of
// payloads are kept by the callers: restore pipelines, BinEntry conversion)
func VF_C12_Retained() {
	n := vfParam("n", 1)
	obj1 := vfObject(vfParam("kind", 0), n)
	p1, err := EncodeDump(obj1)
	vfAssert(err == nil, "EncodeDump failed")
	obj2 := vfObject(vfParam("kind2", 0), n)
	p2, err2 := EncodeDump(obj2)
	vfAssert(err2 == nil, "EncodeDump failed")
	if err != nil || err2 != nil {
		return
	}
	keep := append([]byte{}, p1...)
	// a third serialisation through the entry conversion
	oe := &ObjEntry{DB: 1, Key: []byte("k"), Value: obj2}
	be, err3 := oe.BinEntry()
	vfAssert(err3 == nil, "BinEntry failed")
	vfAssert(vfBytesEq2(keep, p1), "an emitted payload changed when a later value was serialised")
	back1, e1 := DecodeDump(p1)
	back2, e2 := DecodeDump(p2)
	vfAssert(e1 == nil && e2 == nil, "DecodeDump rejected a payload after a later value was serialised")
	if e1 != nil || e2 != nil || err3 != nil {
		return
	}
	vfAssert(vfObjEqual(obj1, back1), "first value does not round-trip once a second one has been serialised")
	vfAssert(vfObjEqual(obj2, back2), "second value does not round-trip")
	back3, e3 := DecodeDump(be.Value)
	vfAssert(e3 == nil && vfObjEqual(obj2, back3), "entry conversion payload does not round-trip")
	vfAssertTwin(len(p1) == 0, "twin")
}

// strings at the integer-encoding boundaries: digits, signs, leading zeros, spaces
func VF_C12_IntStrings() {
	n := vfParam("len", 2)
	s := vfBytes("s", n)
	for _, c := range s {
		vfAssume(vfOr(vfAnd(c >= '0', c <= '9'), vfOr(c == '-', vfOr(c == '+', c == ' '))))
	}
	p, err := EncodeDump(String(s))
	vfAssert(err == nil, "EncodeDump failed")
	back, err := DecodeDump(p)
	vfAssert(err == nil, "DecodeDump failed")
	if err == nil {
		vfAssert(vfObjEqual(String(s), back), "integer-looking string does not round-trip byte for byte")
	}
	// and the int32 edges, concretely
	for _, lit := range []string{"127", "128", "-128", "-129", "32767", "32768", "-32768", "-32769", "2147483647", "2147483648", "-2147483648", "-2147483649", "007", "-0", "+5", " 5", "5 ", ""} {
		p, err := EncodeDump(String(lit))
		back, err2 := DecodeDump(p)
		ok := err == nil && err2 == nil
		vfAssert(ok, "edge integer string failed: "+lit)
		if ok {
			bs, _ := back.(String)
			vfAssert(string(bs) == lit, "edge integer string changed: "+lit)
		}
	}
	vfAssertTwin(err != nil, "twin")
}

func vfPayload(typ byte, raw []byte) []byte {
	p := append([]byte{typ}, raw...)
	p = append(p, 6, 0)
	c := crc64.Digest(p)
	for i := 0; i < 8; i++ {
		p = append(p, byte(c>>(8*uint(i))))
	}
	return p
}

// payloads in every compact encoding decode to the logical value Redis would materialise
func VF_C12_Compact() {
	t := vfParam("t", 0)
	n := vfParam("n", 1)
	var typ byte
	var raw []byte
	var want interface{}
	zent := func(i int) vfZLEntry {
		switch vfPick("enc", 7) {
		case 0:
			return vfZLInt(int64(vfByte("i4")%13), 0)
		case 1:
			return vfZLInt(int64(int8(vfByte("i8"))), 1)
		case 2:
			return vfZLInt(int64(int16(vfUint16("i16"))), 2)
		case 3:
			v := int64(int32(vfUint32("i24"))) >> 8
			return vfZLInt(v, 3)
		case 4:
			v := int32(vfUint32("i32"))
			vfAssume(vfOr(vfAnd(v >= -130, v <= 130), vfOr(v >= 2147483640, v <= -2147483640)))
			return vfZLInt(int64(v), 4)
		case 5:
			return vfZLStr(vfBytes("zs", 1+i%2), 1)
		}
		return vfZLStr(vfBytes("zs", 2), 2)
	}
	switch t {
	case 0: // ziplist list
		var ents []vfZLEntry
		l := List{}
		for i := 0; i < n; i++ {
			e := zent(i)
			ents = append(ents, e)
			l = append(l, e.logical())
		}
		typ, raw, want = RdbTypeListZiplist, vfRdbStr(vfZiplist(ents)), l
	case 1: // ziplist hash
		var ents []vfZLEntry
		h := Hash{}
		for i := 0; i < n; i++ {
			f := vfZLStr(vfBytes("f", 1), 0)
			v := zent(i)
			ents = append(ents, f, v)
			h = append(h, &HashElement{Field: f.logical(), Value: v.logical()})
		}
		typ, raw, want = RdbTypeHashZiplist, vfRdbStr(vfZiplist(ents)), h
	case 2: // ziplist zset: members symbolic, score texts / integer scores from concrete lists
		var ents []vfZLEntry
		z := ZSet{}
		texts := []string{"1", "-2.5", "1e3", "0", "-0", "inf", "-inf", "3.0000000000000004"}
		ints := []int64{0, 12, 13, -1, 127, -128, 128, 32767, -32768, 32768, 8388607, -8388608, 8388608, 2147483647, -2147483648, 2147483648}
		for i := 0; i < n; i++ {
			m := vfZLStr(vfBytes("m", 1), 0)
			var sc vfZLEntry
			var f float64
			if vfPick("scorekind", 2) == 0 {
				tx := texts[vfPick("text", len(texts))]
				sc = vfZLStr([]byte(tx), 0)
				f, _ = strconv.ParseFloat(tx, 64)
			} else {
				v := ints[vfPick("int", len(ints))]
				enc := 5
				switch {
				case v >= 0 && v <= 12:
					enc = 0
				case v >= -128 && v <= 127:
					enc = 1
				case v >= -32768 && v <= 32767:
					enc = 2
				case v >= -8388608 && v <= 8388607:
					enc = 3
				case v >= -2147483648 && v <= 2147483647:
					enc = 4
				}
				sc = vfZLInt(v, enc)
				f = float64(v)
			}
			ents = append(ents, m, sc)
			z = append(z, &ZSetElement{Member: m.logical(), Score: f})
		}
		typ, raw, want = RdbTypeZSetZiplist, vfRdbStr(vfZiplist(ents)), z
	case 3: // intset
		width := []int{2, 4, 8}[vfPick("width", 3)]
		s := Set{}
		var vals []int64
		for i := 0; i < n; i++ {
			v := int64(int16(vfUint16("iv")))
			if i > 0 {
				v = int64(int8(vfByte("iv8")))
			}
			vals = append(vals, v)
			s = append(s, []byte(strconv.FormatInt(v, 10)))
		}
		typ, raw, want = RdbTypeSetIntset, vfRdbStr(vfIntset(vals, width)), s
	case 4: // zipmap
		h := Hash{}
		var ps [][2][]byte
		for i := 0; i < n; i++ {
			f, v := vfBytes("f", 1), vfBytes("v", 1+i%2)
			ps = append(ps, [2][]byte{f, v})
			h = append(h, &HashElement{Field: f, Value: v})
		}
		lenByte := byte(n)
		if vfPick("zmlen", 2) == 1 {
			lenByte = 254
		}
		typ, raw, want = RdbTypeHashZipmap, vfRdbStr(vfZipmap(ps, vfPick("free", 2), lenByte)), h
	case 5: // quicklist of ziplists
		l := List{}
		raw = vfRdbLen(n)
		for i := 0; i < n; i++ {
			a, b := zent(i), vfZLStr(vfBytes("q", 1), 0)
			raw = append(raw, vfRdbStr(vfZiplist([]vfZLEntry{a, b}))...)
			l = append(l, a.logical(), b.logical())
		}
		typ, want = RdbTypeQuicklist, l
	case 6: // integer-encoded plain strings
		switch vfPick("w", 3) {
		case 0:
			v := int8(vfByte("i8"))
			raw, want = []byte{0xc0, byte(v)}, String(strconv.FormatInt(int64(v), 10))
		case 1:
			v := int16(vfUint16("i16"))
			raw, want = []byte{0xc1, byte(v), byte(uint16(v) >> 8)}, String(strconv.FormatInt(int64(v), 10))
		default:
			v := int32(vfUint32("i32"))
			vfAssume(vfOr(vfAnd(v >= -130, v <= 130), vfOr(v >= 2147483640, v <= -2147483640)))
			u := uint32(v)
			raw, want = []byte{0xc2, byte(u), byte(u >> 8), byte(u >> 16), byte(u >> 24)}, String(strconv.FormatInt(int64(v), 10))
		}
		typ = RdbTypeString
	case 7: // LZF compressed string and LZF compressed ziplist
		z := vfBytes("z", 2)
		comp := []byte{1, z[0], z[1], 0x20, 1} // "ab" + back reference of 3 -> "ababa"
		if n == 1 {
			raw = append([]byte{0xc3, byte(len(comp)), 5}, comp...)
			typ, want = RdbTypeString, String([]byte{z[0], z[1], z[0], z[1], z[0]})
		} else {
			zl := vfZiplist([]vfZLEntry{vfZLStr([]byte{'k'}, 0), vfZLStr([]byte{'v'}, 0)})
			// literal runs of at most 32 bytes
			var c []byte
			for i := 0; i < len(zl); i += 32 {
				j := i + 32
				if j > len(zl) {
					j = len(zl)
				}
				c = append(c, byte(j-i-1))
				c = append(c, zl[i:j]...)
			}
			raw = append([]byte{0xc3, byte(len(c)), byte(len(zl))}, c...)
			typ, want = RdbTypeHashZiplist, Hash{&HashElement{Field: []byte("k"), Value: []byte("v")}}
		}
	}
	got, err := DecodeDump(vfPayload(typ, raw))
	vfAssert(err == nil, "DecodeDump rejected a well-formed compact payload")
	if err == nil {
		vfAssert(vfObjEqual(want, got), "compact encoding decodes to a different logical value")
	}
	vfAssertTwin(err != nil, "twin")
}

// whole file: header, selectors, expiries, objects, footer -> loader -> same entries, verifying footer
func VF_C12_File() {
	shape := vfParam("shape", 0)
	type item struct {
		db  uint32
		key []byte
		exp uint64
		obj interface{}
	}
	var items []item
	switch shape {
	case 0:
		items = []item{{uint32(vfByte("db") & 0x3f), vfBytes("k", 2), vfUint64("exp"), String(vfPlain("v", 2))}}
	case 1:
		items = []item{
			{3, vfPlain("k1", 1), 0, List{vfPlain("e", 1), vfPlain("e", 2)}},
			{3, vfPlain("k2", 1), vfUint64("exp"), Hash{&HashElement{Field: vfPlain("f", 1), Value: vfPlain("v", 1)}}},
		}
	case 2:
		items = []item{
			{0, vfPlain("k1", 1), 0, ZSet{&ZSetElement{Member: vfPlain("m", 1), Score: vfScore("score")}}},
			{uint32(vfUint16("db2") & 0x3fff), vfPlain("k2", 2), 0, Set{vfPlain("s", 1)}},
		}
	}
	var b bytes.Buffer
	enc := NewEncoder(&b)
	vfAssert(enc.EncodeHeader() == nil, "EncodeHeader")
	for _, it := range items {
		vfAssert(enc.EncodeObject(it.db, it.key, it.exp, it.obj) == nil, "EncodeObject")
	}
	vfAssert(enc.EncodeFooter() == nil, "EncodeFooter")
	l := NewLoader(bytes.NewReader(b.Bytes()))
	vfAssert(l.Header() == nil, "loader rejects the header written by the encoder")
	for _, it := range items {
		e, err := l.NextBinEntry()
		ok := e != nil && err == nil
		vfAssert(ok, "loader did not deliver an entry the encoder wrote")
		if !ok {
			return
		}
		vfAssert(e.DB == it.db, "database differs after the file round trip")
		vfAssert(vfBytesEq2(e.Key, it.key), "key differs after the file round trip")
		vfAssert(e.ExpireAt == it.exp, "expiry differs after the file round trip")
		oe, err := e.ObjEntry()
		vfAssert(err == nil, "payload of a loaded entry does not decode")
		if err == nil {
			vfAssert(vfObjEqual(it.obj, oe.Value), "value differs after the file round trip")
		}
	}
	e, err := l.NextBinEntry()
	vfAssert(e == nil && err == nil, "extra entry")
	ferr := l.Footer()
	vfAssert(ferr == nil, "footer written by the encoder does not verify")
	vfAssertTwin(ferr != nil, "twin")
}

// BinEntry <-> ObjEntry conversion keeps every field
func VF_C12_EntryConv() {
	kind := vfParam("kind", 0)
	o := &ObjEntry{DB: vfUint32("db"), Key: vfPlain("k", 2), Type: byte(kind), Value: vfObject(kind, 1), ExpireAt: vfUint64("exp"),
		RealMemberCount: vfUint32("rmc"), NeedReadLen: vfByte("nrl")}
	be, err := o.BinEntry()
	vfAssert(err == nil, "ObjEntry.BinEntry failed")
	if err != nil {
		return
	}
	vfAssert(be.DB == o.DB && be.Type == o.Type && be.ExpireAt == o.ExpireAt && be.RealMemberCount == o.RealMemberCount && be.NeedReadLen == o.NeedReadLen && vfBytesEq2(be.Key, o.Key), "scalar fields lost in ObjEntry.BinEntry")
	o2, err := be.ObjEntry()
	vfAssert(err == nil, "BinEntry.ObjEntry failed")
	if err == nil {
		vfAssert(vfObjEqual(o.Value, o2.Value), "value lost in the entry conversion round trip")
		vfAssert(o2.DB == o.DB && o2.Type == o.Type && o2.ExpireAt == o.ExpireAt && vfBytesEq2(o2.Key, o.Key), "scalar fields lost in BinEntry.ObjEntry")
	}
	vfAssertTwin(err != nil, "twin")
}

// lengths at the 6/14-bit boundary (concrete length, symbolic content at both ends)
func VF_C12_LengthBoundary() {
	n := vfParam("len", 63)
	s := make([]byte, n)
	for i := range s {
		s[i] = 'x'
	}
	m := vfBytes("m", 2)
	s[0], s[n-1] = m[0], m[1]
	p, err := EncodeDump(String(s))
	vfAssert(err == nil, "EncodeDump failed")
	back, err := DecodeDump(p)
	vfAssert(err == nil, "DecodeDump failed at a length boundary")
	if err == nil {
		bs, ok := back.(String)
		vfAssert(ok && len(bs) == n && bs[0] == m[0] && bs[n-1] == m[1] && bs[n/2] == 'x', "string at a length boundary changed")
	}
	vfAssertTwin(err != nil, "twin")
}
