package digest

// C11 — checksums are the Redis CRC-64 (Jones, reflected, init 0), chunking independent.
//
//vf:opt C11 timeout=60000
//vf:job C11 quick VF_C11_Digest_StepIsJones
//vf:job C11 quick VF_C11_Digest_StepInjective
//vf:job C11 quick VF_C11_Digest_Chunking n1=0..2 n2=0..2
//vf:job C11 quick VF_C11_Digest_SumLayout
//vf:assume C11 induction over stream length from the one-step lemmas (step = bitwise Jones step; step injective in state and in byte; Write is a fold of steps) is done on paper, see DESIGN §7 C11
//vf:outside C11 hash.Hash64 plumbing beyond Write/Sum/Sum64/Reset

// reflected Jones polynomial (0xad93d23594c935a9 bit-reversed)
const vfJonesRef = 0x95ac9329ac4bc9b5

// vfBitStep is the textbook bitwise reflected CRC step (branch-free).
func vfBitStep(crc uint64, b byte) uint64 {
	crc ^= uint64(b)
	for i := 0; i < 8; i++ {
		crc = (crc >> 1) ^ (vfJonesRef & -(crc & 1))
	}
	return crc
}

// one real table step from an arbitrary state equals the bitwise Jones step
func VF_C11_Digest_StepIsJones() {
	s := vfUint64("s")
	b := vfByte("b")
	d := &digest{crc: s}
	d.update([]byte{b})
	vfObserve("got", d.crc)
	vfAssert(d.crc == vfBitStep(s, b), "digest.update step differs from the bitwise Jones CRC-64 step")
	vfAssertTwin(d.crc != s, "twin")
}

// the real step is injective in the state (same byte) and in the byte (same state)
func VF_C11_Digest_StepInjective() {
	s1 := vfUint64("s1")
	s2 := vfUint64("s2")
	b1 := vfByte("b1")
	b2 := vfByte("b2")
	d1 := &digest{crc: s1}
	d1.update([]byte{b1})
	d2 := &digest{crc: s2}
	d2.update([]byte{b1})
	vfAssert(vfImplies(s1 != s2, d1.crc != d2.crc), "two different states collide after the same byte")
	d3 := &digest{crc: s1}
	d3.update([]byte{b2})
	vfAssert(vfImplies(b1 != b2, d1.crc != d3.crc), "two different bytes collide from the same state")
	vfAssertTwin(d1.crc != d3.crc, "twin")
}

// Write(p1);Write(p2) == Write(p1||p2) from an arbitrary state; Write reports len(p)
func VF_C11_Digest_Chunking() {
	n1 := vfParam("n1", 1)
	n2 := vfParam("n2", 1)
	s := vfUint64("s")
	p1 := vfBytes("p", n1)
	p2 := vfBytes("q", n2)
	a := &digest{crc: s}
	k1, e1 := a.Write(p1)
	k2, e2 := a.Write(p2)
	b := &digest{crc: s}
	k3, e3 := b.Write(append(append([]byte{}, p1...), p2...))
	vfAssert(e1 == nil && e2 == nil && e3 == nil, "Write returned an error")
	vfAssert(k1 == n1 && k2 == n2 && k3 == n1+n2, "Write returned a wrong count")
	vfAssert(a.Sum64() == b.Sum64(), "digest depends on chunking")
	vfAssertTwin(a.Sum64() != b.Sum64(), "twin")
	// and equals the fold of bitwise steps (one step only: two chained table
	// steps against two chained bitwise steps time out in every back end; longer
	// streams follow by induction from the one-step lemma)
	if n1+n2 > 1 {
		return
	}
	w := s
	for _, c := range p1 {
		w = vfBitStep(w, c)
	}
	for _, c := range p2 {
		w = vfBitStep(w, c)
	}
	vfAssert(a.Sum64() == w, "digest differs from the bitwise Jones CRC-64 of the covered bytes")
}

// Sum appends the state little-endian, New starts at zero, Reset returns to zero
func VF_C11_Digest_SumLayout() {
	h := New()
	vfAssert(h.Sum64() == 0, "initial value is not zero")
	s := vfUint64("s")
	d := &digest{crc: s}
	pre := vfBytes("pre", 2)
	out := d.Sum(pre)
	ok := len(out) == 10
	vfAssert(ok, "Sum length")
	if ok {
		good := vfAnd(out[0] == pre[0], out[1] == pre[1])
		for i := 0; i < 8; i++ {
			good = vfAnd(good, out[2+i] == byte(s>>(8*uint(i))))
		}
		vfAssert(good, "Sum is not prefix || little-endian CRC")
	}
	vfAssert(d.Sum64() == s, "Sum changed the state")
	d.Reset()
	vfAssert(d.Sum64() == 0, "Reset does not return to zero")
	vfAssert(d.Size() == 8, "Size")
	vfAssertTwin(out[2] != 0, "twin")
}
