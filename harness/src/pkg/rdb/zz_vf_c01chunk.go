package rdb

// C01 — a hashtable-encoded hash above the 16 MiB split is delivered in chunks that together
// carry every member exactly once, and the following key, EOF and footer are still found.
//
//vf:job C01 quick VF_C01_ChunkedHash members=2..4
//vf:job C01 quick VF_C01_ChunkedHash members=2 short=1
//vf:job C01 quick VF_C01_ChunkedHash members=2..3 short=2
//vf:job C01 thorough VF_C01_ChunkedHash members=3..4 short=1
//vf:replayE C01 VF_C01_ChunkedHash
//vf:stub C01 digest.New (chunked-hash run only): a hash that ignores its input and reports 0, the file carries checksum 0 — CRC over 48 MiB is 10^9 interpreted steps, the checksum itself is checked by the other C01/C11 runs
//vf:assume C01 chunked-hash run: members of 16 MiB or 3 bytes (every combination) in a sparse file image (marker bytes symbolic, the rest zero)

import (
	"hash"
	"io"

	"github.com/alibaba/RedisShake/pkg/libs/errors"
)

type vfNullHash struct{}

func (vfNullHash) Write(p []byte) (int, error) { return len(p), nil }
func (vfNullHash) Sum(in []byte) []byte        { return append(in, 0, 0, 0, 0, 0, 0, 0, 0) }
func (vfNullHash) Sum64() uint64               { return 0 }
func (vfNullHash) BlockSize() int              { return 1 }
func (vfNullHash) Size() int                   { return 8 }
func (vfNullHash) Reset()                      {}

type vfImage struct {
	b   []byte
	pos int
	lim int // > 0: a Read returns at most lim bytes (short reads, as a network connection or bufio.Reader gives)
}

func (r *vfImage) Read(p []byte) (int, error) {
	if r.pos >= len(r.b) {
		return 0, io.EOF
	}
	if r.lim > 0 && len(p) > r.lim {
		p = p[:r.lim]
	}
	n := copy(p, r.b[r.pos:])
	r.pos += n
	return n, nil
}

func VF_C01_ChunkedHash() {
	members := vfParam("members", 3)
	const big = 16 << 20
	vfStub("github.com/alibaba/RedisShake/pkg/rdb/digest.New", func() hash.Hash64 { return vfNullHash{} })
	marks := vfBytes("m", 3*members)
	tail := vfBytes("t", 1)
	img := make([]byte, 64+members*(big+16))
	p := 0
	put := func(bs ...byte) {
		for _, x := range bs {
			img[p] = x
			p++
		}
	}
	put([]byte("REDIS0007")...)
	put(rdbFlagSelectDB, 2)
	put(RdbTypeHash, 1, 'H', byte(members))
	vlen := make([]int, members) // value length of member i: 16 MiB (closes a chunk) or 3 bytes
	mlen := make([]int, members) // serialized size of member i
	for i := 0; i < members; i++ {
		vlen[i] = 3
		if vfPick("size", 2) == 1 {
			vlen[i] = big
		}
		put(2, byte('a'+i), marks[3*i])
		if vlen[i] == big {
			put(rdb32bitLen, byte(big>>24), byte(big>>16&0xff), byte(big>>8&0xff), byte(big&0xff))
			mlen[i] = 3 + 5 + big
		} else {
			put(3)
			mlen[i] = 3 + 1 + 3
		}
		img[p], img[p+vlen[i]-1] = marks[3*i+1], marks[3*i+2]
		p += vlen[i]
	}
	put(RdbTypeString, 1, 'T', 1, tail[0])
	put(rdbFlagEOF)
	put(0, 0, 0, 0, 0, 0, 0, 0)
	img = img[:p]

	// expected chunking (rdb reader): a chunk closes after the member that brings the bytes read
	// for it above 16 MiB, unless that member is the last one of the hash
	type chunk struct{ from, to int }
	var chunks []chunk
	acc, from := 1, 0
	for i := 0; i < members; i++ {
		acc += mlen[i]
		if i == members-1 || acc > big {
			chunks = append(chunks, chunk{from, i + 1})
			acc, from = 0, i+1
		}
	}

	// short=1: reads of at most 20 000 bytes (no divisor of a power of two), short=2: at most 4 MiB + 1
	lim := []int{0, 20000, 4<<20 + 1}[vfParam("short", 0)]
	l := NewLoader(&vfImage{b: img, lim: lim})
	vfAssert(l.Header() == nil, "header")
	var err error
	for ci, c := range chunks {
		e, err := l.NextBinEntry()
		vfAssert(err == nil && e != nil, "a chunk of the split hash is missing or failed to parse")
		if err != nil || e == nil {
			return
		}
		vfAssert(e.DB == 2 && e.Type == RdbTypeHash && len(e.Key) == 1 && e.Key[0] == 'H', "chunk attributed to another database, type or key")
		first := byte(0)
		if ci == 0 {
			first = 1
		}
		vfAssert(e.NeedReadLen == first, "only the first chunk carries the member count")
		if len(chunks) > 1 {
			vfAssert(int(e.RealMemberCount) == c.to-c.from, "chunk does not announce the number of members it carries")
		} else {
			vfAssert(e.RealMemberCount == 0, "an unsplit value carries chunk markers")
		}
		// value dump: type, [count], members, version(2), crc(8)
		hdr := 1
		if ci == 0 {
			hdr = 2
		}
		want := hdr + 10
		for i := c.from; i < c.to; i++ {
			want += mlen[i]
		}
		vfAssert(len(e.Value) == want, "chunk payload has another size than its members")
		if len(e.Value) == want {
			v := e.Value
			vfAssert(v[0] == RdbTypeHash && (ci != 0 || v[1] == byte(members)), "chunk payload header")
			q := hdr
			for i := c.from; i < c.to; i++ {
				vfAssert(v[q] == 2 && v[q+1] == byte('a'+i) && v[q+2] == marks[3*i], "chunk carries another field than member i (lost, repeated or reordered member)")
				vs := q + mlen[i] - vlen[i]
				vfAssert(v[vs] == marks[3*i+1] && v[vs+vlen[i]-1] == marks[3*i+2], "member value bytes altered")
				q += mlen[i]
			}
		}
	}
	e, err := l.NextBinEntry()
	vfAssert(err == nil && e != nil, "the key after the split hash is missing or failed to parse")
	if err == nil && e != nil {
		vfAssert(e.DB == 2 && e.Type == RdbTypeString && len(e.Key) == 1 && e.Key[0] == 'T', "the key after the split hash is not the one in the file")
		vfAssert(e.NeedReadLen == 1 && e.RealMemberCount == 0, "unsplit value carries chunk markers")
		vfAssert(len(e.Value) == 13 && e.Value[2] == tail[0], "value of the key after the split hash")
	}
	e, err = l.NextBinEntry()
	vfAssert(e == nil && err == nil, "end of file not reached after the last key")
	vfAssert(l.Footer() == nil, "footer")
	_ = errors.New
	vfAssertTwin(err != nil, "twin")
}
