package rdb

// LZF with symbolic control bytes: every compressed form of n bytes (literal
// runs, short and long back references, overlapping ones, every distance) that
// liblzf accepts for an output of 1..maxout bytes, through the loader's
// decompressor and through the string reader (0xc3 form).
//
//vf:use lzf
//vf:job C01 quick VF_C01_LZFSym n=2..6 maxout=12
//vf:job C01 thorough VF_C01_LZFSym n=7..8 maxout=16
//vf:job C01 quick VF_C01_LZFString n=2..5 maxout=8
//vf:outside C01 compressed forms longer than 8 bytes or outputs longer than 16 bytes under symbolic control bytes (the hand-built forms of VF_C01_Load cover a 10-byte overlapping run)

import "bytes"

func VF_C01_LZFSym() {
	n := vfParam("n", 2)
	maxout := vfParam("maxout", 8)
	in := vfBytes("in", n)
	outlen := 1 + vfChoice("outlen", maxout)
	want, ok := vfLZFSpec(in, outlen)
	vfAssume(ok)
	got, err := lzfDecompress(append([]byte{}, in...), outlen)
	vfObserve("err", err == nil)
	vfAssert(err == nil, "a well-formed LZF form is rejected by lzfDecompress")
	if err != nil {
		return
	}
	vfObserve("got", got)
	vfAssert(len(got) == outlen && vfEqBytes(got, want), "lzfDecompress differs from liblzf on a well-formed form")
	vfAssertTwin(len(got) > 0 && got[0] != in[0], "twin")
}

// the same through rdbReader.ReadString (0xc3 clen ulen bytes)
func VF_C01_LZFString() {
	n := vfParam("n", 2)
	maxout := vfParam("maxout", 6)
	in := vfBytes("in", n)
	outlen := 1 + vfChoice("outlen", maxout)
	want, ok := vfLZFSpec(in, outlen)
	vfAssume(ok)
	w := &vfW{}
	w.strLZF(in, outlen, vfForm("form"))
	w.b(0xff)
	r := NewRdbReader(bytes.NewReader(w.buf))
	got, err := r.ReadString()
	vfAssert(err == nil, "a well-formed LZF string is rejected by ReadString")
	if err != nil {
		return
	}
	vfObserve("got", got)
	vfAssert(len(got) == outlen && vfEqBytes(got, want), "ReadString differs from liblzf on a well-formed LZF string")
	b, err := r.ReadByte()
	vfAssert(err == nil && b == 0xff, "ReadString of an LZF string did not stop at the end of the compressed form")
}
