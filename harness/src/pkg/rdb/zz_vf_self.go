package rdb

// Encoder self-validation: the repository's own unit tests of this package, executed by the engine
// (concretely — they have no symbolic input) with the same interpreter, memory model and intrinsics
// the property harnesses use. A test that passes natively must pass here; a failure is replayed
// natively like any candidate and, since the native run passes, comes out as ENCODER-MISMATCH
// (exit 2), never as a violation.
//
//vf:tests decoder_test.go encoder_test.go loader_test.go
//vf:job C12 quick VF_Self_RdbTests test=0..6
//vf:job C12 thorough VF_Self_RdbTests test=7..10 opt_maxsteps=400000000
//vf:job C01 quick VF_Self_RdbTests test=11..18
//vf:outside C12 self-validation skips TestEncodeRdb (math/rand is not modelled)

import "testing"

var vfSelfTests = []func(*testing.T){
	TestDecodeString, TestDecodeListZipmap, TestDecodeList, TestDecodeSet, TestDecodeHash, TestDecodeZSet,
	TestEncodeString, TestEncodeList, TestEncodeHash, TestEncodeZSet, TestEncodeSet,
	TestLoadIntString, TestLoadStringTTL, TestLoadLongString, TestLoadListZipmap, TestLoadList,
	TestLoadSetAndSetIntset, TestLoadHashAndHashZiplist, TestLoadZSetAndZSetZiplist,
}

func VF_Self_RdbTests() {
	i := vfParam("test", 0)
	t := new(testing.T)
	vfSelfTests[i](t) // the tests report through assert.Must / MustNoError, which abort the run
	vfAssertTwin(i < 0, "twin")
}
