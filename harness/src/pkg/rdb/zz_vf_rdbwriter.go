package rdb

// Reference RDB writer (specification side, after Redis' rdb.c). A skeleton
// emits the byte stream and the list of records the parser must deliver.

import (
	"strconv"

	"github.com/alibaba/RedisShake/pkg/rdb/digest"
)

type vfRec struct {
	db     uint32
	key    []byte
	typ    byte
	raw    []byte // exact serialized value bytes from the stream
	expire uint64
	idle   uint32
	freq   uint8
	lua    bool
}

type vfW struct {
	buf  []byte
	recs []vfRec
	// pending attributes for the next key
	db     uint32
	expire uint64
	idle   uint32
	freq   uint8
}

func (w *vfW) b(x ...byte) { w.buf = append(w.buf, x...) }

// length emits v in the given form: 0 = 6 bit, 1 = 14 bit, 2 = 32 bit, 3 = 64 bit.
// The caller guarantees that v fits (assumptions are placed here for symbolic v).
func (w *vfW) length(v uint64, form int) {
	switch form {
	case 0:
		vfAssume(v < 64)
		w.b(byte(v))
	case 1:
		vfAssume(v < 16384)
		w.b(0x40|byte(v>>8), byte(v))
	case 2:
		vfAssume(v < 1<<32)
		w.b(0x80, byte(v>>24), byte(v>>16), byte(v>>8), byte(v))
	default:
		w.b(0x81, byte(v>>56), byte(v>>48), byte(v>>40), byte(v>>32), byte(v>>24), byte(v>>16), byte(v>>8), byte(v))
	}
}

// str emits a raw string with its length in the given form.
func (w *vfW) str(s []byte, form int) {
	w.length(uint64(len(s)), form)
	w.b(s...)
}

func (w *vfW) strInt8(v int8)   { w.b(0xc0, byte(v)) }
func (w *vfW) strInt16(v int16) { w.b(0xc1, byte(v), byte(uint16(v)>>8)) }
func (w *vfW) strInt32(v int32) {
	u := uint32(v)
	w.b(0xc2, byte(u), byte(u>>8), byte(u>>16), byte(u>>24))
}

// strLZF emits an LZF-compressed string from a hand-built compressed form.
func (w *vfW) strLZF(comp []byte, outlen int, form int) {
	w.b(0xc3)
	w.length(uint64(len(comp)), form)
	w.length(uint64(outlen), form)
	w.b(comp...)
}

// vfLZFRef is liblzf's decompressor (specification).
func vfLZFRef(in []byte, outlen int) []byte {
	out := make([]byte, 0, outlen)
	for i := 0; i < len(in); {
		ctrl := int(in[i])
		i++
		if ctrl < 32 {
			for x := 0; x <= ctrl; x++ {
				out = append(out, in[i])
				i++
			}
		} else {
			n := ctrl >> 5
			if n == 7 {
				n += int(in[i])
				i++
			}
			ref := len(out) - ((ctrl & 0x1f) << 8) - int(in[i]) - 1
			i++
			for x := 0; x <= n+1; x++ {
				out = append(out, out[ref])
				ref++
			}
		}
	}
	return out
}

func (w *vfW) header(version byte) {
	w.b('R', 'E', 'D', 'I', 'S', '0', '0', '0', version)
}

func (w *vfW) selectDB(db uint32, form int) {
	w.b(0xfe)
	w.length(uint64(db), form)
	w.db = db
}

func (w *vfW) expireMS(ms uint64) {
	w.b(0xfc)
	for i := 0; i < 8; i++ {
		w.b(byte(ms >> (8 * uint(i))))
	}
	w.expire = ms
}

func (w *vfW) expireS(s uint32) {
	w.b(0xfd, byte(s), byte(s>>8), byte(s>>16), byte(s>>24))
	w.expire = uint64(s) * 1000
}

func (w *vfW) idleOp(v uint32, form int) {
	w.b(0xf8)
	w.length(uint64(v), form)
	w.idle = v
}

func (w *vfW) freqOp(v uint8) {
	w.b(0xf9, v)
	w.freq = v
}

func (w *vfW) aux(k, v []byte) {
	w.b(0xfa)
	w.str(k, 0)
	w.str(v, 0)
	if string(k) == "lua" {
		w.recs = append(w.recs, vfRec{db: w.db, key: k, typ: 0xfa, raw: v, lua: true})
	}
}

func (w *vfW) resize(a, b uint32, form int) {
	w.b(0xfb)
	w.length(uint64(a), form)
	w.length(uint64(b), form)
}

// key emits type byte, key, and the value produced by body; the record carries
// the attributes announced since the previous key.
func (w *vfW) key(typ byte, key []byte, decodedKey []byte, body func()) {
	w.b(typ)
	if decodedKey == nil {
		w.str(key, 0)
		decodedKey = key
	} else {
		w.b(key...) // already encoded (int / lzf form)
	}
	start := len(w.buf)
	body()
	raw := append([]byte{}, w.buf[start:]...)
	w.recs = append(w.recs, vfRec{db: w.db, key: decodedKey, typ: typ, raw: raw, expire: w.expire, idle: w.idle, freq: w.freq})
	w.expire, w.idle, w.freq = 0, 0, 0
}

func (w *vfW) eof() {
	w.b(0xff)
	d := digest.New()
	d.Write(w.buf)
	c := d.Sum64()
	for i := 0; i < 8; i++ {
		w.b(byte(c >> (8 * uint(i))))
	}
}

// vfDumpOf is the DUMP payload the parser must deliver for a value.
func vfDumpOf(typ byte, raw []byte) []byte {
	p := append([]byte{typ}, raw...)
	p = append(p, byte(ToVersion), byte(ToVersion>>8))
	d := digest.New()
	d.Write(p)
	c := d.Sum64()
	for i := 0; i < 8; i++ {
		p = append(p, byte(c>>(8*uint(i))))
	}
	return p
}

func vfItoa(v int64) []byte { return []byte(strconv.FormatInt(v, 10)) }
