package rdb

// C12 — the payload decoder's LZF decompressor with symbolic control bytes:
// every compressed form of n bytes that liblzf accepts for an output of
// 1..maxout bytes.
//
//vf:use lzf
//vf:job C12 quick VF_C12_LZFSym n=2..6 maxout=12
//vf:job C12 thorough VF_C12_LZFSym n=7..8 maxout=16
//vf:outside C12 LZF forms longer than 8 bytes or outputs longer than 16 bytes under symbolic control bytes; malformed forms (the decoder panics on them; the payloads it receives come from the tool's own parser, which has checked them: VF_C01_LZFSym)

func VF_C12_LZFSym() {
	n := vfParam("n", 2)
	maxout := vfParam("maxout", 8)
	in := vfBytes("in", n)
	outlen := 1 + vfChoice("outlen", maxout)
	want, ok := vfLZFSpec(in, outlen)
	vfAssume(ok)
	got := lzfDecompress(append([]byte{}, in...), outlen)
	vfObserve("got", got)
	vfAssert(len(got) == outlen && vfEqBytes(got, want), "payload decoder's lzfDecompress differs from liblzf on a well-formed form")
	vfAssertTwin(len(got) > 0 && got[0] != in[0], "twin")
}
