package rdb

// C11 — payload verification used by the decoder (verifyDump).
//
//vf:job C11 quick VF_C11_VerifyDump_Accepts n=0..2
//vf:job C11 quick VF_C11_VerifyDump_RejectsVersion n=0..1
//vf:job C11 quick VF_C11_VerifyDump_RejectsCRC n=0..1 pos=0..7
// (no job) VF_C11_VerifyDump_RejectsData: see CheckVersionChecksum_RejectsData
//vf:job C11 quick VF_C11_VerifyDump_RejectsShort n=0..9

import "github.com/cupcake/rdb/crc64"

func vfMakeDumpC(body []byte, version uint16) []byte {
	d := append([]byte{}, body...)
	d = append(d, byte(version), byte(version>>8))
	c := crc64.Digest(d)
	for i := 0; i < 8; i++ {
		d = append(d, byte(c>>(8*uint(i))))
	}
	return d
}

func VF_C11_VerifyDump_Accepts() {
	n := vfParam("n", 1)
	d := vfMakeDumpC(vfBytes("body", n), uint16(Version))
	vfAssert(verifyDump(d) == nil, "intact payload is rejected by verifyDump")
	vfAssertTwin(verifyDump(d) != nil, "twin")
}

func VF_C11_VerifyDump_RejectsVersion() {
	n := vfParam("n", 1)
	ver := vfUint16("ver")
	vfAssume(ver > uint16(Version))
	d := vfMakeDumpC(vfBytes("body", n), ver)
	vfAssert(verifyDump(d) != nil, "payload with a version above the supported one is accepted by verifyDump")
	vfAssertTwin(verifyDump(d) == nil, "twin")
}

func VF_C11_VerifyDump_RejectsCRC() {
	n := vfParam("n", 1)
	pos := vfParam("pos", 0)
	d := vfMakeDumpC(vfBytes("body", n), uint16(Version))
	x := vfByte("x")
	i := len(d) - 8 + pos
	vfAssume(x != d[i])
	d[i] = x
	vfAssert(verifyDump(d) != nil, "payload with an altered checksum byte is accepted by verifyDump")
	vfAssertTwin(verifyDump(d) == nil, "twin")
}

func VF_C11_VerifyDump_RejectsData() {
	n := vfParam("n", 1)
	d := vfMakeDumpC(vfBytes("body", n), uint16(Version))
	x := vfByte("x")
	vfAssume(x != d[0])
	d[0] = x
	vfAssert(verifyDump(d) != nil, "payload with an altered data byte is accepted by verifyDump")
	vfAssertTwin(verifyDump(d) == nil, "twin")
}

func VF_C11_VerifyDump_RejectsShort() {
	n := vfParam("n", 0)
	vfAssert(verifyDump(vfBytes("d", n)) != nil, "payload shorter than its trailer is accepted by verifyDump")
}
