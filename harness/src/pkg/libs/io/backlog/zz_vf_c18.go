package backlog

// C18 — the backlog ring returns the bytes written at an offset, or says they are gone.
//
//vf:job C18 quick VF_C18_Offsets size=0..4
//vf:job C18 quick VF_C18_ReadStep blen=0..3 file=0..1
//vf:job C18 quick VF_C18_WriteStep blen=0..3 file=0..1
//vf:job C18 quick VF_C18_WriteStep blen=8,9,12 file=0..1
//vf:job C18 quick VF_C18_Sequential variant=0..4
//vf:job C18 quick VF_C18_WrapNonPow2
//vf:job C18 quick VF_C18_Proto readers=1..2 wn=1..2
//vf:job C18 quick VF_C18_ProtoClose readers=1..2 kind=0..1
//vf:replayE C18 VF_C18_ReadStep VF_C18_WriteStep VF_C18_Proto VF_C18_ProtoClose
//vf:opt C18 preempt=2 thorough_preempt=3
//vf:stub C18 (*os.File).ReadAt/WriteAt/Truncate/Close: byte-store file of ring size (file-backed steps only)
//vf:assume C18 ghost stream: ring[q mod size] holds stream byte q for the last min(wpos,size) positions; one-step lemmas from an arbitrary 64-bit wpos, histories by induction (paper)
//vf:assume C18 offset lemmas for ring sizes 4096, 12288, 4 MiB, 12 MiB and 8; step lemmas on an 8-byte ring built directly; protocol runs on the real 4096-byte memory backlog
//vf:outside C18 more than two readers; data races at memory-model level; protocol runs with other sizes

import (
	"io"
	"os"

	"github.com/alibaba/RedisShake/pkg/libs/errors"
)

func vfMin(a, b uint64) uint64 {
	if a < b {
		return a
	}
	return b
}

var vfSizes = []uint64{4096, 4 << 20, 8, 12288, 12 << 20}

func VF_C18_Offsets() {
	size := vfSizes[vfParam("size", 0)]
	wpos := vfUint64("wpos")
	rpos := vfUint64("rpos")
	blen := vfInt("blen")
	vfAssume(blen >= 0)
	vfAssume(wpos <= 1<<62)
	vfAssume(rpos <= wpos)
	vfAssume(rpos+size >= wpos)
	m, off := roffset(blen, size, rpos, wpos)
	vfAssert(m <= uint64(blen) && m <= wpos-rpos, "roffset: more than requested or than what follows the offset")
	vfAssert(off == rpos%size && off+m <= size, "roffset: range leaves the ring")
	vfAssert((m == 0) == vfOr(blen == 0, rpos == wpos), "roffset: zero exactly at the write position or for an empty buffer")
	m2, off2 := woffset(blen, size, wpos)
	vfAssert(m2 <= uint64(blen) && m2 <= size, "woffset: more than given or than the ring")
	vfAssert(off2 == wpos%size && off2+m2 <= size, "woffset: range leaves the ring")
	vfAssert((m2 == 0) == (blen == 0), "woffset: a non-empty write must make progress")
	vfAssertTwin(m == m2, "twin")
}

const vfRing = 8

var vfFileStore []byte

func vfFileReadAt(f *os.File, b []byte, off int64) (int, error) {
	if off < 0 || off >= int64(len(vfFileStore)) {
		return 0, io.EOF
	}
	n := copy(b, vfFileStore[off:])
	if n < len(b) {
		return n, io.EOF
	}
	return n, nil
}
func vfFileWriteAt(f *os.File, b []byte, off int64) (int, error) {
	if off < 0 || int(off)+len(b) > len(vfFileStore) {
		return 0, errors.New("vf: write outside the file window")
	}
	return copy(vfFileStore[off:], b), nil
}
func vfFileTruncate(f *os.File, size int64) error { return nil }
func vfFileClose(f *os.File) error                { return nil }

func vfStore(file int, ring []byte, wpos uint64) buffer {
	if file == 0 {
		return &memBuffer{b: ring, size: vfRing, wpos: wpos}
	}
	vfFileStore = ring
	vfStub("(*os.File).ReadAt", vfFileReadAt)
	vfStub("(*os.File).WriteAt", vfFileWriteAt)
	vfStub("(*os.File).Truncate", vfFileTruncate)
	vfStub("(*os.File).Close", vfFileClose)
	return &fileBuffer{f: new(os.File), size: vfRing, wpos: wpos}
}

// a read at any offset returns exactly the bytes written there, or is refused exactly when they are gone / not yet written
func VF_C18_ReadStep() {
	blen := vfParam("blen", 1)
	file := vfParam("file", 0)
	ring := vfBytes("ring", vfRing)
	orig := append([]byte{}, ring...)
	wpos := vfUint64("wpos")
	vfAssume(wpos <= 1<<62)
	o := vfUint64("o")
	vfAssume(o <= 1<<62)
	st := vfStore(file, ring, wpos)
	b := make([]byte, blen)
	n, err := st.readSomeAt(b, o)
	gone := vfOr(o > wpos, o+vfRing < wpos)
	vfAssert((err != nil) == gone, "invalid-offset error must be reported exactly for overwritten or future offsets")
	if err != nil {
		vfAssert(errors.Equal(err, ErrInvalidOffset) && n == 0, "refused read must carry ErrInvalidOffset and no bytes")
		return
	}
	want := vfMin(vfMin(uint64(blen), wpos-o), vfRing-o%vfRing)
	vfAssert(uint64(n) == want, "read count")
	ok := true
	for i := 0; i < n; i++ {
		ok = vfAnd(ok, b[i] == orig[(o+uint64(i))%vfRing])
	}
	vfAssert(ok, "bytes returned are not the ones stored for that offset")
	rp, wp := st.dataRange()
	vfAssert(wp == wpos && rp == vfIteU64(wpos >= vfRing, wpos-vfRing, 0), "dataRange is not the most recent min(total, capacity) bytes")
	vfAssertTwin(n != 0, "twin")
}

func VF_C18_WriteStep() {
	blen := vfParam("blen", 1)
	file := vfParam("file", 0)
	ring := vfBytes("ring", vfRing)
	orig := append([]byte{}, ring...)
	wpos := vfUint64("wpos")
	vfAssume(wpos <= 1<<62)
	st := vfStore(file, ring, wpos)
	data := vfBytes("data", blen)
	n, err := st.writeSome(data)
	vfAssert(err == nil, "writeSome failed")
	want := vfMin(vfMin(uint64(blen), vfRing), vfRing-wpos%vfRing)
	vfAssert(uint64(n) == want, "write count")
	rp, wp := st.dataRange()
	vfAssert(wp == wpos+uint64(n), "write position")
	vfAssert(rp == vfIteU64(wp >= vfRing, wp-vfRing, 0), "dataRange after write")
	cur := ring
	if file == 1 {
		cur = vfFileStore
	}
	for j := 0; j < vfRing; j++ {
		isNew := false
		var nv byte
		for i := 0; i < n; i++ {
			hit := (wpos+uint64(i))%vfRing == uint64(j)
			isNew = vfOr(isNew, hit)
			nv = vfIteByte(hit, data[i], nv)
		}
		vfAssert(cur[j] == vfIteByte(isNew, nv, orig[j]), "ring cell differs from (new data | unchanged)")
	}
	vfAssertTwin(uint64(n) != want, "twin")
}

// sequential API behaviour on the real memory backlog
func VF_C18_Sequential() {
	variant := vfParam("variant", 0)
	bl := NewSize(1)
	d := vfBytes("d", 3)
	switch variant {
	case 0: // reader created at the write position sees what is written afterwards, in order
		r, err := bl.NewReader()
		vfAssert(err == nil && r.Offset() == 0 && r.IsValid(), "new reader")
		n, err := bl.Write(d)
		vfAssert(n == 3 && err == nil, "write")
		buf := make([]byte, 2)
		n, err = r.Read(buf)
		vfAssert(n == 2 && err == nil && buf[0] == d[0] && buf[1] == d[1], "first read")
		n, err = r.Read(buf)
		vfAssert(n == 1 && err == nil && buf[0] == d[2] && r.Offset() == 3, "second read")
		rp, wp, err := bl.DataRange()
		vfAssert(rp == 0 && wp == 3 && err == nil, "data range")
	case 1: // ReadAt: exact bytes at an offset, invalid beyond the write position
		bl.Write(d)
		buf := make([]byte, 3)
		n, err := bl.ReadAt(buf, 1)
		vfAssert(n == 2 && err == nil && buf[0] == d[1] && buf[1] == d[2], "ReadAt inside the range")
		n, err = bl.ReadAt(buf, 4)
		vfAssert(n == 0 && errors.Equal(err, ErrInvalidOffset), "ReadAt beyond the write position must be refused")
		n, err = bl.ReadAt(nil, 3)
		vfAssert(n == 0 && err == nil, "zero-length ReadAt")
	case 2: // after more than capacity bytes the oldest offsets are gone
		big := make([]byte, 4096)
		big[4095] = d[0]
		bl.Write(d[1:2])
		bl.Write(big)
		rp, wp, _ := bl.DataRange()
		vfAssert(rp == 1 && wp == 4097, "data range is the most recent capacity bytes")
		buf := make([]byte, 1)
		_, err := bl.ReadAt(buf, 0)
		vfAssert(errors.Equal(err, ErrInvalidOffset), "overwritten offset must be refused")
		n, err := bl.ReadAt(buf, 4096)
		vfAssert(n == 1 && err == nil && buf[0] == d[0], "newest byte readable across the wrap")
		r, _ := bl.NewReader()
		vfAssert(r.SeekTo(1) && r.SeekTo(4097) && !r.SeekTo(0) && !r.SeekTo(4098), "reader valid exactly inside the data range")
	case 3: // close: everything fails afterwards
		bl.Write(d)
		r, _ := bl.NewReader()
		vfAssert(bl.Close() == nil, "close")
		buf := make([]byte, 1)
		_, err := bl.ReadAt(buf, 0)
		vfAssert(err != nil, "read after close must fail")
		_, err = bl.Write(d)
		vfAssert(err != nil, "write after close must fail")
		_, err = r.Read(buf)
		vfAssert(err != nil, "reader after close must fail")
	case 4: // symbolic seek position against the range after a concrete history
		bl.Write(d)
		r, _ := bl.NewReader()
		s := vfUint64("seek")
		vfAssert(r.SeekTo(s) == (s <= 3), "SeekTo/IsValid must agree with the data range")
	}
	vfAssertTwin(d[0] == d[1], "twin")
}

// a 3-unit ring (aligned, not a power of two) over several wrap-arounds: positions concrete, markers symbolic
func VF_C18_WrapNonPow2() {
	bl := NewSize(3 * BuffSizeAlign)
	m := vfBytes("m", 4)
	chunk := func(n int, a, b byte) []byte {
		c := make([]byte, n)
		c[0], c[n-1] = a, b
		return c
	}
	bl.Write(chunk(5000, 1, 2))
	bl.Write(chunk(9000, m[0], m[1]))   // offsets 5000..13999, crosses 12288
	bl.Write(chunk(12000, m[2], m[3])) // offsets 14000..25999, wraps twice
	rp, wp, err := bl.DataRange()
	vfAssert(err == nil && wp == 26000 && rp == 26000-12288, "data range is not the most recent capacity bytes")
	buf := make([]byte, 1)
	n, err := bl.ReadAt(buf, 14000)
	vfAssert(n == 1 && err == nil && buf[0] == m[2], "byte at offset 14000 of a 3-unit ring")
	n, err = bl.ReadAt(buf, 25999)
	vfAssert(n == 1 && err == nil && buf[0] == m[3], "byte at offset 25999 of a 3-unit ring")
	n, err = bl.ReadAt(buf, 13999)
	vfAssert(n == 1 && err == nil && buf[0] == m[1], "byte at offset 13999 (still inside the range)")
	_, err = bl.ReadAt(buf, 13711)
	vfAssert(errors.Equal(err, ErrInvalidOffset), "overwritten offset must be refused")
	vfAssertTwin(wp != 26000, "twin")
}

// readers waiting at the write position are all woken by a write and see the same bytes
func VF_C18_Proto() {
	nr := vfParam("readers", 1)
	wn := vfParam("wn", 1)
	data := vfBytes("d", wn)
	bl := NewSize(1)
	done := make(chan int, nr)
	for k := 0; k < nr; k++ {
		go func() {
			buf := make([]byte, 2)
			n, err := bl.ReadAt(buf, 0)
			vfAssert(err == nil && n > 0 && n <= wn, "waiting reader must be woken by the write with data")
			if n > 0 {
				vfAssert(vfEqBytes(buf[:n], data[:n]), "reader observed other bytes")
			}
			done <- 1
		}()
	}
	n, err := bl.Write(data)
	vfAssert(n == wn && err == nil, "write")
	for k := 0; k < nr; k++ {
		<-done
	}
	vfAssertTwin(n != wn, "twin")
}

// closing wakes every waiting reader with an error
func VF_C18_ProtoClose() {
	nr := vfParam("readers", 1)
	kind := vfParam("kind", 0)
	bl := NewSize(1)
	done := make(chan int, nr)
	for k := 0; k < nr; k++ {
		go func() {
			buf := make([]byte, 1)
			n, err := bl.ReadAt(buf, 0)
			vfAssert(n == 0 && err != nil, "reader woken by close must get an error and no data")
			done <- 1
		}()
	}
	if kind == 0 {
		bl.Close()
	} else {
		bl.CloseWithError(errors.New("vf-close"))
	}
	for k := 0; k < nr; k++ {
		<-done
	}
	vfAssertTwin(nr == 0, "twin")
}
