package pipe

// Encoder self-validation: this package's own unit tests (memory-backed variants) executed by the
// engine under its schedule exploration (see pkg/rdb/zz_vf_self.go).
//
//vf:tests pipe_test.go
//vf:job C09 quick VF_Self_PipeTests test=0..6
//vf:outside C09 self-validation skips the file-backed variants (os.OpenFile) and the four bulk-transfer tests (testPipe2/3/4, TestWriteRead: 10^5 writes under schedule exploration)

import "testing"

var vfSelfTests = []func(*testing.T){
	func(t *testing.T) { testPipe1(t, "") },
	TestPipeReadClose, TestPipeReadClose2, TestPipeWriteClose, TestWriteEmpty, TestWriteNil,
	TestWriteAfterWriterClose,
}

func VF_Self_PipeTests() {
	i := vfParam("test", 0)
	vfSelfTests[i](new(testing.T)) // the tests report through assert.Must / MustNoError, which abort the run
	vfAssertTwin(i < 0, "twin")
}
