package pipe

// C09 — the pipe is a lossless, deadlock-free FIFO byte stream with exact close rules.
//
//vf:job C09 quick VF_C09_Offsets size=0,1,2,3,5
//vf:job C09 thorough VF_C09_Offsets size=4
//vf:job C09 quick VF_C09_MemReadStep blen=0..4
//vf:job C09 quick VF_C09_MemWriteStep blen=0..4
//vf:job C09 quick VF_C09_MemWriteStep blen=8,9,12
//vf:job C09 quick VF_C09_FileReadStep blen=1..3
//vf:job C09 quick VF_C09_FileWriteStep blen=1..3
//vf:job C09 quick VF_C09_Sequential variant=0..7
//vf:job C09 quick VF_C09_WrapNonPow2 file=0..1
//vf:replayE C09 VF_C09_WrapNonPow2
//vf:job C09 quick VF_C09_Proto writes=1..2 wn=1..2 rn=1..3 close=0..1
//vf:job C09 quick VF_C09_ProtoReaderCloses wn=1..2
//vf:job C09 thorough VF_C09_Proto writes=2..2 wn=3..3 rn=1..3 close=0..1
//vf:job C09 thorough VF_C09_ProtoFull
//vf:job C09 quick VF_C09_ProtoBlockedWriter extra=2,64 rn=1,16
//vf:job C09 quick VF_C09_ProtoBlockedWriterReaderCloses kind=0..1
//vf:replayE C09 VF_C09_FileReadStep VF_C09_FileWriteStep VF_C09_Proto VF_C09_ProtoReaderCloses VF_C09_ProtoFull VF_C09_ProtoBlockedWriter VF_C09_ProtoBlockedWriterReaderCloses
//vf:opt C09 preempt=2 thorough_preempt=3
//vf:stub C09 (*os.File).ReadAt/WriteAt/Truncate/Close: byte-store file of ring size (file-backed steps only)
//vf:assume C09 offset lemmas: ring sizes 4096, 8192, 12288, 4 MiB, 12 MiB and 8 (a fully symbolic 64-bit size makes the remainder undecidable within 60 s in all three back ends); positions and buffer lengths are arbitrary 64-bit values
//vf:assume C09 ring invariant for the one-step lemmas: rpos <= wpos <= rpos+size (64-bit, arbitrary values, i.e. any number of earlier wrap-arounds); histories of any length follow by induction over steps (on paper)
//vf:assume C09 one-step refinement runs on a ring of 8 bytes constructed directly (the offset arithmetic lemmas hold for every 64-bit size); protocol runs use the real 4096-byte memory buffer
//vf:outside C09 more than one reader or writer goroutine; data races at memory-model level; protocol runs with buffer sizes other than 4096

import (
	"io"
	"os"

	"github.com/alibaba/RedisShake/pkg/libs/errors"
)

func vfMin(a, b uint64) uint64 {
	if a < b {
		return a
	}
	return b
}

// ring offset arithmetic for a concrete ring size (param) and arbitrary 64-bit
// positions satisfying the ring invariant (i.e. after any number of wrap-arounds)
var vfSizes = []uint64{4096, 8192, 12288, 4 << 20, 12 << 20, 8}

func VF_C09_Offsets() {
	size := vfSizes[vfParam("size", 0)]
	rpos := vfUint64("rpos")
	wpos := vfUint64("wpos")
	blen := vfInt("blen")
	vfAssume(blen >= 0)
	vfAssume(wpos >= rpos)
	vfAssume(wpos-rpos <= size)
	vfAssume(wpos <= 1<<63) // positions far from overflow (an 8 EiB stream)
	used := wpos - rpos
	free := size - used

	m, off := roffset(blen, size, rpos, wpos)
	vfAssert(m <= uint64(blen), "roffset: more than the caller's buffer")
	vfAssert(m <= used, "roffset: more than what is buffered")
	vfAssert(off < size, "roffset: offset outside the ring")
	vfAssert(off+m <= size, "roffset: range runs past the end of the ring")
	vfAssert(off == rpos%size, "roffset: offset is not rpos mod size")
	vfAssert((m == 0) == vfOr(blen == 0, used == 0), "roffset: zero exactly when empty or zero-length buffer")

	m2, off2 := woffset(blen, size, rpos, wpos)
	vfAssert(m2 <= uint64(blen), "woffset: more than the caller's data")
	vfAssert(m2 <= free, "woffset: more than the free space")
	vfAssert(off2 < size, "woffset: offset outside the ring")
	vfAssert(off2+m2 <= size, "woffset: range runs past the end of the ring")
	vfAssert(off2 == wpos%size, "woffset: offset is not wpos mod size")
	vfAssert((m2 == 0) == vfOr(blen == 0, free == 0), "woffset: zero exactly when full or zero-length data")
	vfAssertTwin(m == m2, "twin")
}

const vfRing = 8

func vfRingState() (ring []byte, rpos, wpos uint64) {
	ring = vfBytes("ring", vfRing)
	rpos = vfUint64("rpos")
	wpos = vfUint64("wpos")
	vfAssume(wpos >= rpos)
	vfAssume(wpos-rpos <= vfRing)
	vfAssume(wpos <= 1<<62)
	return
}

// one readSome from an arbitrary valid state returns exactly the oldest buffered bytes
func VF_C09_MemReadStep() {
	blen := vfParam("blen", 1)
	ring, rpos, wpos := vfRingState()
	orig := append([]byte{}, ring...)
	p := &memBuffer{b: ring, size: vfRing, rpos: rpos, wpos: wpos}
	b := make([]byte, blen)
	n, err := p.readSome(b)
	vfAssert(err == nil, "readSome failed on an open buffer")
	used := wpos - rpos
	want := vfMin(vfMin(uint64(blen), used), vfRing-rpos%vfRing)
	vfAssert(uint64(n) == want, "readSome returned a wrong count")
	ok := true
	for i := 0; i < n; i++ {
		ok = vfAnd(ok, b[i] == orig[(rpos+uint64(i))%vfRing])
	}
	vfAssert(ok, "readSome returned bytes other than the oldest buffered ones")
	// state afterwards: same stream suffix buffered
	vfAssert(uint64(p.buffered()) == used-uint64(n), "buffered() after read")
	vfAssert(uint64(p.available()) == vfRing-(used-uint64(n)), "available() after read")
	vfAssert(vfImplies(used-uint64(n) > 0, vfAnd(p.rpos == rpos+uint64(n), p.wpos == wpos)), "positions after read")
	vfAssert(vfImplies(used-uint64(n) == 0, p.rpos == p.wpos), "drained buffer must be empty")
	same := true
	for i := 0; i < vfRing; i++ {
		same = vfAnd(same, p.b[i] == orig[i])
	}
	vfAssert(same, "readSome modified the ring")
	vfAssertTwin(n != 0, "twin")
}

// one writeSome from an arbitrary valid state stores the data after the newest byte and nowhere else
func VF_C09_MemWriteStep() {
	blen := vfParam("blen", 1)
	ring, rpos, wpos := vfRingState()
	orig := append([]byte{}, ring...)
	p := &memBuffer{b: ring, size: vfRing, rpos: rpos, wpos: wpos}
	data := vfBytes("data", blen)
	n, err := p.writeSome(data)
	vfAssert(err == nil, "writeSome failed on an open buffer")
	used := wpos - rpos
	free := vfRing - used
	want := vfMin(vfMin(uint64(blen), free), vfRing-wpos%vfRing)
	vfAssert(uint64(n) == want, "writeSome accepted a wrong count")
	vfAssert(p.rpos == rpos && p.wpos == wpos+uint64(n), "positions after write")
	// every ring cell: written position -> data byte, else unchanged; live cells never overwritten
	for j := 0; j < vfRing; j++ {
		isNew := false
		var nv byte
		for i := 0; i < n; i++ {
			hit := (wpos+uint64(i))%vfRing == uint64(j)
			isNew = vfOr(isNew, hit)
			nv = vfIteByte(hit, data[i], nv)
		}
		live := false
		for k := uint64(0); k < vfRing; k++ {
			live = vfOr(live, vfAnd(k < used, (rpos+k)%vfRing == uint64(j)))
		}
		vfAssert(vfNot(vfAnd(isNew, live)), "writeSome overwrote a byte that was not yet read")
		vfAssert(p.b[j] == vfIteByte(isNew, nv, orig[j]), "ring cell differs from (new data | unchanged)")
	}
	vfAssertTwin(n != 0, "twin")
}

// ---- file-backed flavour: *os.File replaced by a byte store of ring size

var vfFileStore []byte
var vfFileClosed bool

func vfFileReadAt(f *os.File, b []byte, off int64) (int, error) {
	if off < 0 || off >= int64(len(vfFileStore)) {
		return 0, io.EOF
	}
	n := copy(b, vfFileStore[off:])
	if n < len(b) {
		return n, io.EOF
	}
	return n, nil
}

func vfFileWriteAt(f *os.File, b []byte, off int64) (int, error) {
	if off < 0 || int(off)+len(b) > len(vfFileStore) {
		return 0, errors.New("vf: write outside the file window")
	}
	return copy(vfFileStore[off:], b), nil
}

func vfFileTruncate(f *os.File, size int64) error { return nil }
func vfFileClose(f *os.File) error                { vfFileClosed = true; return nil }

func vfInstallFile(ring []byte) *os.File {
	vfFileStore = ring
	vfFileClosed = false
	vfStub("(*os.File).ReadAt", vfFileReadAt)
	vfStub("(*os.File).WriteAt", vfFileWriteAt)
	vfStub("(*os.File).Truncate", vfFileTruncate)
	vfStub("(*os.File).Close", vfFileClose)
	return new(os.File)
}

func VF_C09_FileReadStep() {
	blen := vfParam("blen", 1)
	ring, rpos, wpos := vfRingState()
	orig := append([]byte{}, ring...)
	p := &fileBuffer{f: vfInstallFile(ring), size: vfRing, rpos: rpos, wpos: wpos}
	b := make([]byte, blen)
	n, err := p.readSome(b)
	vfAssert(err == nil, "readSome failed on an open file buffer")
	used := wpos - rpos
	want := vfMin(vfMin(uint64(blen), used), vfRing-rpos%vfRing)
	vfAssert(uint64(n) == want, "file readSome returned a wrong count")
	ok := true
	for i := 0; i < n; i++ {
		ok = vfAnd(ok, b[i] == orig[(rpos+uint64(i))%vfRing])
	}
	vfAssert(ok, "file readSome returned bytes other than the oldest buffered ones")
	vfAssert(uint64(p.buffered()) == used-uint64(n), "buffered() after read")
	vfAssertTwin(n == 0, "twin")
}

func VF_C09_FileWriteStep() {
	blen := vfParam("blen", 1)
	ring, rpos, wpos := vfRingState()
	orig := append([]byte{}, ring...)
	p := &fileBuffer{f: vfInstallFile(ring), size: vfRing, rpos: rpos, wpos: wpos}
	data := vfBytes("data", blen)
	n, err := p.writeSome(data)
	vfAssert(err == nil, "writeSome failed on an open file buffer")
	used := wpos - rpos
	free := vfRing - used
	want := vfMin(vfMin(uint64(blen), free), vfRing-wpos%vfRing)
	vfAssert(uint64(n) == want, "file writeSome accepted a wrong count")
	vfAssert(p.rpos == rpos && p.wpos == wpos+uint64(n), "positions after write")
	for j := 0; j < vfRing; j++ {
		isNew := false
		var nv byte
		for i := 0; i < n; i++ {
			hit := (wpos+uint64(i))%vfRing == uint64(j)
			isNew = vfOr(isNew, hit)
			nv = vfIteByte(hit, data[i], nv)
		}
		vfAssert(vfFileStore[j] == vfIteByte(isNew, nv, orig[j]), "file cell differs from (new data | unchanged)")
	}
	vfAssertTwin(n == 0, "twin")
}

// ---- sequential close rules on the real pipe (single goroutine, nothing can block)
func VF_C09_Sequential() {
	variant := vfParam("variant", 0)
	r, w := NewSize(1)
	d := vfBytes("d", 3)
	buf := make([]byte, 2)
	switch variant {
	case 0: // write, writer close, reader drains then sees EOF
		n, err := w.Write(d)
		vfAssert(n == 3 && err == nil, "write")
		vfAssert(w.Close() == nil, "writer close")
		n, err = r.Read(buf)
		vfAssert(n == 2 && err == nil && buf[0] == d[0] && buf[1] == d[1], "first read after writer close must drain")
		n, err = r.Read(buf)
		vfAssert(n == 1 && err == nil && buf[0] == d[2], "second read after writer close must drain")
		n, err = r.Read(buf)
		vfAssert(n == 0 && errors.Equal(err, io.EOF), "drained reader must see end-of-file")
		_, err = w.Write(d)
		vfAssert(errors.Equal(err, io.ErrClosedPipe), "write after writer close must fail with closed pipe")
	case 1: // writer closes with its own error
		e := errors.New("vf-writer-error")
		w.Write(d[:1])
		w.CloseWithError(e)
		n, err := r.Read(buf)
		vfAssert(n == 1 && err == nil && buf[0] == d[0], "buffered byte lost at writer close")
		n, err = r.Read(buf)
		vfAssert(n == 0 && err == e, "drained reader must see the writer's error")
		bn, berr := r.Buffered()
		vfAssert(bn == 0 && berr == e, "Buffered after drain reports the writer's error")
	case 2: // reader closes: both sides fail, nothing blocks
		w.Write(d)
		vfAssert(r.Close() == nil, "reader close")
		n, err := r.Read(buf)
		vfAssert(n == 0 && errors.Equal(err, io.ErrClosedPipe), "read after reader close must fail with closed pipe")
		n, err = w.Write(d)
		vfAssert(n == 0 && errors.Equal(err, io.ErrClosedPipe), "write after reader close must fail with the reader error")
	case 3: // reader closes with its own error
		e := errors.New("vf-reader-error")
		r.CloseWithError(e)
		n, err := w.Write(d)
		vfAssert(n == 0 && err == e, "write after reader CloseWithError must fail with that error")
		_, aerr := w.Available()
		vfAssert(aerr == e, "Available after reader close")
	case 4: // zero-length operations and the counters
		n, err := w.Write(nil)
		vfAssert(n == 0 && err == nil, "empty write")
		n, err = r.Read(nil)
		vfAssert(n == 0 && err == nil, "zero-length read on an empty open pipe")
		w.Write(d)
		bn, berr := r.Buffered()
		an, aerr := w.Available()
		vfAssert(bn == 3 && berr == nil && an == 4096-3 && aerr == nil, "Buffered/Available disagree with the byte counts")
		n, err = r.Read(nil)
		vfAssert(n == 0 && err == nil, "zero-length read with data buffered")
	case 6, 7: // zero-length reads around the writer's close: no error before the buffered bytes are drained
		e := io.EOF
		w.Write(d)
		if variant == 6 {
			w.Close()
		} else {
			e = errors.New("vf-writer-error")
			w.CloseWithError(e)
		}
		n, err := r.Read(nil)
		vfAssert(n == 0 && err == nil, "a zero-length read reports the writer's close while bytes are still buffered")
		n, err = r.Read(buf[:0])
		vfAssert(n == 0 && err == nil, "a zero-length read reports the writer's close while bytes are still buffered")
		n, err = r.Read(buf)
		vfAssert(n == 2 && err == nil && buf[0] == d[0] && buf[1] == d[1], "first read after writer close must drain")
		n, err = r.Read(nil)
		vfAssert(n == 0 && err == nil, "a zero-length read reports the writer's close while a byte is still buffered")
		n, err = r.Read(buf)
		vfAssert(n == 1 && err == nil && buf[0] == d[2], "second read after writer close must drain")
		n, err = r.Read(buf)
		vfAssert(n == 0 && (err == e || errors.Equal(err, e)), "drained reader must see the writer's error")
	case 5: // fill the ring exactly: capacity bytes accepted without blocking, then drained in order
		big := make([]byte, 4096)
		big[0], big[4095] = d[0], d[1]
		n, err := w.Write(big)
		vfAssert(n == 4096 && err == nil, "capacity-sized write")
		an, _ := w.Available()
		vfAssert(an == 0, "full ring must report no space")
		out := make([]byte, 4096)
		n, err = r.Read(out)
		vfAssert(n == 4096 && err == nil && out[0] == d[0] && out[4095] == d[1], "capacity-sized read")
	}
	vfAssertTwin(d[0] == d[1], "twin")
}

// a ring whose size is aligned but not a power of two (3 units): chunks that wrap the ring several
// times arrive intact (positions concrete, marker bytes symbolic)
func VF_C09_WrapNonPow2() {
	var r Reader
	var w Writer
	size := 3 * BuffSizeAlign
	if vfParam("file", 0) == 0 {
		r, w = NewSize(size)
	} else {
		store := make([]byte, size)
		p := &fileBuffer{f: vfInstallFile(store), size: uint64(size)}
		r, w = newPipe(p)
	}
	m := vfBytes("m", 8)
	chunk := func(n int, a, b byte) []byte {
		c := make([]byte, n)
		c[0], c[n-1] = a, b
		return c
	}
	readAll := func(n int) []byte {
		out := make([]byte, 0, n)
		buf := make([]byte, n)
		for len(out) < n {
			k, err := r.Read(buf[:n-len(out)])
			vfAssert(err == nil && k > 0, "read from a non-empty open pipe failed")
			if err != nil || k == 0 {
				return out
			}
			out = append(out, buf[:k]...)
		}
		return out
	}
	// 5000 in, 3000 out (positions no longer at the ring start), then two chunks that cross the end of the ring
	n, err := w.Write(chunk(5000, m[0], m[1]))
	vfAssert(n == 5000 && err == nil, "write 1")
	o1 := readAll(3000)
	n, err = w.Write(chunk(9000, m[2], m[3]))
	vfAssert(n == 9000 && err == nil, "write 2")
	o2 := readAll(2000 + 9000)
	n, err = w.Write(chunk(12000, m[4], m[5]))
	vfAssert(n == 12000 && err == nil, "write 3")
	o3 := readAll(12000)
	ok := len(o1) == 3000 && len(o2) == 11000 && len(o3) == 12000
	vfAssert(ok, "byte counts")
	if ok {
		vfAssert(o1[0] == m[0] && o2[1999] == m[1] && o2[2000] == m[2] && o2[10999] == m[3] && o3[0] == m[4] && o3[11999] == m[5], "bytes around the wrap points of a 3-unit ring are not the written ones")
		vfAssert(o1[1] == 0 && o2[5000] == 0 && o3[6000] == 0, "filler bytes changed")
	}
	vfAssertTwin(!ok, "twin")
}

// ---- protocol runs: one writer goroutine, reader in the main goroutine, every interleaving
func VF_C09_Proto() {
	writes := vfParam("writes", 1)
	wn := vfParam("wn", 1)
	rn := vfParam("rn", 1)
	closeKind := vfParam("close", 0)
	total := writes * wn
	data := vfBytes("d", total)
	werr := errors.New("vf-writer-error")
	r, w := NewSize(1)
	done := make(chan int, 1)
	ack := make(chan int, 1)
	go func() {
		for i := 0; i < writes; i++ {
			n, err := w.Write(data[i*wn : (i+1)*wn])
			vfAssert(n == wn && err == nil, "write to an open pipe with a live reader failed")
		}
		// the writer closes only after the reader has confirmed every byte: the
		// reader must be woken by progress alone, not by the close
		<-ack
		if closeKind == 0 {
			w.Close()
		} else {
			w.CloseWithError(werr)
		}
		done <- 1
	}()
	var got []byte
	var rerr error
	acked := false
	for k := 0; k < total+2; k++ {
		if len(got) == total && !acked {
			ack <- 1
			acked = true
		}
		buf := make([]byte, rn)
		n, err := r.Read(buf)
		got = append(got, buf[:n]...)
		if err != nil {
			rerr = err
			break
		}
		vfAssert(n > 0, "Read returned 0 bytes without an error for a non-empty buffer")
	}
	<-done
	vfAssert(len(got) == total, "reader did not observe exactly the written bytes before the close error")
	if len(got) == total {
		vfAssert(vfEqBytes(got, data), "bytes observed out of order or altered")
	}
	if closeKind == 0 {
		vfAssert(errors.Equal(rerr, io.EOF), "after the writer closed, the drained reader must get end-of-file")
	} else {
		vfAssert(rerr == werr, "after CloseWithError the drained reader must get the writer's error")
	}
	vfAssertTwin(len(got) != total, "twin")
}

// the reader closes while the writer may be in any state: nobody blocks, both fail afterwards
func VF_C09_ProtoReaderCloses() {
	wn := vfParam("wn", 1)
	data := vfBytes("d", 2*wn)
	r, w := NewSize(1)
	done := make(chan int, 1)
	go func() {
		okBefore := true
		for i := 0; i < 2; i++ {
			n, err := w.Write(data[i*wn : (i+1)*wn])
			if err != nil {
				okBefore = false
				vfAssert(n == 0 || n == wn, "partial write without blocking")
			} else {
				vfAssert(okBefore, "a write succeeded after an earlier one failed")
			}
		}
		done <- 1
	}()
	buf := make([]byte, wn)
	n, err := r.Read(buf)
	vfAssert(err == nil && n > 0, "first read")
	r.Close()
	_, err = r.Read(buf)
	vfAssert(errors.Equal(err, io.ErrClosedPipe), "read after reader close")
	<-done
	_, err = w.Write(data[:1])
	vfAssert(err != nil, "write after reader close must fail")
	vfAssertTwin(n == 0, "twin")
}

// a write larger than the ring blocks until the reader makes room; every byte arrives in order
func VF_C09_ProtoFull() {
	r, w := NewSize(1)
	mark := vfBytes("m", 3)
	big := make([]byte, 4096+1)
	big[0], big[4095], big[4096] = mark[0], mark[1], mark[2]
	done := make(chan int, 1)
	go func() {
		n, err := w.Write(big)
		vfAssert(n == 4097 && err == nil, "oversized write must complete once the reader drains")
		w.Close()
		done <- 1
	}()
	out := make([]byte, 0, 4097)
	buf := make([]byte, 4096)
	for {
		n, err := r.Read(buf)
		out = append(out, buf[:n]...)
		if err != nil {
			vfAssert(errors.Equal(err, io.EOF), "end-of-file expected")
			break
		}
	}
	<-done
	vfAssert(len(out) == 4097, "byte count")
	if len(out) == 4097 {
		vfAssert(out[0] == mark[0] && out[4095] == mark[1] && out[4096] == mark[2], "bytes around the wrap point")
	}
	vfAssertTwin(len(out) != 4097, "twin")
}

// a writer blocked on a full ring is woken by every read that makes room: after the reader
// took rn bytes and everything that can run has run, the ring is full again (or holds all
// that is left), without the reader doing anything further
func VF_C09_ProtoBlockedWriter() {
	extra := vfParam("extra", 2)
	rn := vfParam("rn", 1)
	total := 4096 + extra
	mark := vfBytes("m", 3)
	big := make([]byte, total)
	big[0], big[4095], big[total-1] = mark[0], mark[1], mark[2]
	r, w := NewSize(1)
	done := make(chan int, 1)
	go func() {
		n, err := w.Write(big)
		vfAssert(n == total && err == nil, "oversized write must complete once the reader made room")
		w.Close()
		done <- 1
	}()
	out := make([]byte, 0, total)
	for step := 0; step < 3; step++ {
		vfIdle()
		left := total - len(out)
		if left > 4096 {
			left = 4096
		}
		b, err := r.Buffered()
		vfAssert(err == nil && b == left, "a read made room but the blocked writer was not woken (ring not refilled at quiescence)")
		buf := make([]byte, rn)
		n, err := r.Read(buf)
		vfAssert(n == rn && err == nil, "read of a full ring")
		out = append(out, buf[:n]...)
	}
	buf := make([]byte, 4096)
	for {
		n, err := r.Read(buf)
		out = append(out, buf[:n]...)
		if err != nil {
			vfAssert(errors.Equal(err, io.EOF), "end-of-file expected")
			break
		}
	}
	<-done
	vfAssert(len(out) == total, "byte count")
	if len(out) == total {
		vfAssert(out[0] == mark[0] && out[4095] == mark[1] && out[total-1] == mark[2], "bytes around the wrap point")
	}
	vfAssertTwin(len(out) != total, "twin")
}

// a writer blocked on a completely full ring is released by the reader's close, with the reader's error
func VF_C09_ProtoBlockedWriterReaderCloses() {
	kind := vfParam("kind", 0)
	r, w := NewSize(1)
	big := make([]byte, 4096+1)
	e := errors.New("vf-reader-error")
	done := make(chan int, 1)
	go func() {
		n, err := w.Write(big)
		vfAssert(err != nil && n <= 4096, "a write that cannot complete must fail once the reader has closed")
		if kind == 1 {
			vfAssert(err == e, "blocked writer must get the reader's error")
		} else {
			vfAssert(errors.Equal(err, io.ErrClosedPipe), "blocked writer must get closed-pipe")
		}
		done <- 1
	}()
	vfIdle() // the writer has filled the ring and waits
	b, _ := r.Buffered()
	vfAssert(b == 4096, "ring full before the close")
	if kind == 1 {
		r.CloseWithError(e)
	} else {
		r.Close()
	}
	<-done // a writer that stays blocked is a deadlock
	vfAssertTwin(b == 0, "twin")
}
