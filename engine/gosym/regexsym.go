package gosym

import (
	"regexp/syntax"
	"sort"
)

// Symbolic regular-expression matching for strings of concrete length with symbolic
// bytes. The pattern is parsed with regexp/syntax (the parser the real package uses);
// match(e, i) yields, for every end position, the condition under which e matches
// s[i:end]. Supported: literals, classes, ., concatenation, alternation, groups,
// ^ $ (text and (?m) line anchors), * + ? and counted repeats. Case folding, word
// boundaries and non-ASCII input classes are not.

type reSym struct {
	s     Str
	n     int
	ok    bool
	ascii map[int]bool // positions whose byte must be ASCII for the byte-level reading to be exact
}

type reEnds map[int]*Term

func (m reEnds) keys() []int {
	ks := make([]int, 0, len(m))
	for k := range m {
		ks = append(ks, k)
	}
	sort.Ints(ks)
	return ks
}

func (m reEnds) add(end int, c *Term) {
	if c.IsFalse() {
		return
	}
	if o, ok := m[end]; ok {
		m[end] = Or(o, c)
	} else {
		m[end] = c
	}
}

func (r *reSym) byteIn(i int, ranges []rune) *Term {
	b := r.s.At(i)
	res := False
	for k := 0; k+1 < len(ranges); k += 2 {
		lo, hi := ranges[k], ranges[k+1]
		if lo > 0xff {
			continue
		}
		if hi > 0x7f {
			// bytes >= 0x80 are parts of multi-byte runes for the real matcher
			hi = 0x7f
			if lo > hi {
				continue
			}
		}
		if lo == hi {
			res = Or(res, Eq(b, BV(8, uint64(lo))))
		} else {
			res = Or(res, And(Bin(OpULe, BV(8, uint64(lo)), b), Bin(OpULe, b, BV(8, uint64(hi)))))
		}
	}
	return res
}

func (r *reSym) match(e *syntax.Regexp, i int) reEnds {
	out := reEnds{}
	switch e.Op {
	case syntax.OpEmptyMatch:
		out.add(i, True)
	case syntax.OpNoMatch:
	case syntax.OpLiteral:
		if e.Flags&syntax.FoldCase != 0 {
			r.ok = false
			return out
		}
		if i+len(e.Rune) > r.n {
			return out
		}
		c := True
		for k, ru := range e.Rune {
			if ru > 0x7f {
				r.ok = false
				return out
			}
			c = And(c, Eq(r.s.At(i+k), BV(8, uint64(ru))))
		}
		out.add(i+len(e.Rune), c)
	case syntax.OpCharClass:
		if i < r.n {
			r.okAscii(i)
			out.add(i+1, r.byteIn(i, e.Rune))
		}
	case syntax.OpAnyCharNotNL:
		if i < r.n {
			r.okAscii(i)
			out.add(i+1, Ne(r.s.At(i), BV(8, '\n')))
		}
	case syntax.OpAnyChar:
		if i < r.n {
			r.okAscii(i)
			out.add(i+1, True)
		}
	case syntax.OpBeginText:
		if i == 0 {
			out.add(i, True)
		}
	case syntax.OpEndText:
		if i == r.n {
			out.add(i, True)
		}
	case syntax.OpBeginLine:
		if i == 0 {
			out.add(i, True)
		} else {
			out.add(i, Eq(r.s.At(i-1), BV(8, '\n')))
		}
	case syntax.OpEndLine:
		if i == r.n {
			out.add(i, True)
		} else {
			out.add(i, Eq(r.s.At(i), BV(8, '\n')))
		}
	case syntax.OpCapture:
		return r.match(e.Sub[0], i)
	case syntax.OpConcat:
		cur := reEnds{i: True}
		for _, sub := range e.Sub {
			next := reEnds{}
			for _, p := range cur.keys() {
				c := cur[p]
				mm := r.match(sub, p)
				for _, q := range mm.keys() {
					d := mm[q]
					next.add(q, And(c, d))
				}
			}
			cur = next
		}
		return cur
	case syntax.OpAlternate:
		for _, sub := range e.Sub {
			mm := r.match(sub, i)
			for _, q := range mm.keys() {
				d := mm[q]
				out.add(q, d)
			}
		}
	case syntax.OpQuest:
		out.add(i, True)
		mm := r.match(e.Sub[0], i)
		for _, q := range mm.keys() {
			d := mm[q]
			out.add(q, d)
		}
	case syntax.OpStar, syntax.OpPlus, syntax.OpRepeat:
		min, max := 0, -1
		if e.Op == syntax.OpPlus {
			min = 1
		}
		if e.Op == syntax.OpRepeat {
			min, max = e.Min, e.Max
		}
		cur := reEnds{i: True}
		if min == 0 {
			out.add(i, True)
		}
		for k := 1; (max < 0 || k <= max) && k <= r.n+1 && len(cur) > 0; k++ {
			next := reEnds{}
			for _, p := range cur.keys() {
				c := cur[p]
				mm := r.match(e.Sub[0], p)
				for _, q := range mm.keys() {
					d := mm[q]
					if q == p && k > min {
						continue // empty iteration adds nothing
					}
					next.add(q, And(c, d))
				}
			}
			if k >= min {
				for _, q := range next.keys() {
					d := next[q]
					out.add(q, d)
				}
			}
			cur = next
		}
	default:
		r.ok = false
	}
	return out
}

// okAscii records that the verdict relies on byte i being ASCII (rune == byte)
func (r *reSym) okAscii(i int) {
	if r.ascii == nil {
		r.ascii = map[int]bool{}
	}
	r.ascii[i] = true
}

// symMatchString decides re.MatchString(s) for a string with symbolic bytes; ok=false
// when the pattern uses a construct outside the supported class
func (e *Engine) symMatchString(pat string, s Str) (res *Term, ok bool) {
	re, err := syntax.Parse(pat, syntax.Perl)
	if err != nil {
		return nil, false
	}
	re = re.Simplify()
	r := &reSym{s: s, n: s.Len(), ok: true}
	res = False
	for i := 0; i <= r.n; i++ {
		mm := r.match(re, i)
		for _, q := range mm.keys() {
			res = Or(res, mm[q])
		}
	}
	if !r.ok {
		return nil, false
	}
	if len(r.ascii) > 0 {
		all := True
		for i := 0; i < r.n; i++ {
			if r.ascii[i] {
				all = And(all, Bin(OpULe, s.At(i), BV(8, 0x7f)))
			}
		}
		if !e.branch(all) {
			return nil, false
		}
	}
	return res, true
}
