package gosym

import (
	"time"
	"bytes"
	"fmt"
	"go/ast"
	"go/parser"
	"go/printer"
	"go/token"
	"os"
	"path/filepath"
	"regexp"
	"sort"
	"strings"

	"golang.org/x/tools/go/packages"
	"golang.org/x/tools/go/ssa"
	"golang.org/x/tools/go/ssa/ssautil"
)

const ModulePath = "github.com/alibaba/RedisShake"

type Loaded struct {
	Prog    *ssa.Program
	Pkgs    []*packages.Package
	SSA     map[string]*ssa.Package
	Overlay map[string][]byte
	Notes   []string
}

// DedupeConstBlocks removes a const/var GenDecl whose printed text is identical
// to an earlier GenDecl of the same file (such a file can never compile).
func DedupeConstBlocks(src []byte) ([]byte, int, error) {
	fset := token.NewFileSet()
	f, err := parser.ParseFile(fset, "x.go", src, parser.ParseComments)
	if err != nil {
		return nil, 0, err
	}
	seen := map[string]bool{}
	type rng struct{ lo, hi int }
	var cut []rng
	for _, d := range f.Decls {
		gd, ok := d.(*ast.GenDecl)
		if !ok || (gd.Tok != token.CONST && gd.Tok != token.VAR && gd.Tok != token.TYPE) {
			continue
		}
		var b bytes.Buffer
		printer.Fprint(&b, fset, gd)
		k := b.String()
		if seen[k] {
			cut = append(cut, rng{fset.Position(gd.Pos()).Offset, fset.Position(gd.End()).Offset})
			continue
		}
		seen[k] = true
	}
	if len(cut) == 0 {
		return src, 0, nil
	}
	out := append([]byte(nil), src...)
	for i := len(cut) - 1; i >= 0; i-- {
		// blank the range (keep line numbers)
		for j := cut[i].lo; j < cut[i].hi; j++ {
			if out[j] != '\n' {
				out[j] = ' '
			}
		}
	}
	return out, len(cut), nil
}

var pkgClause = regexp.MustCompile(`(?m)^package\s+\w+`)
var useDirective = regexp.MustCompile(`(?m)^//vf:use\s+(\w+)`)
var testsDirective = regexp.MustCompile(`(?m)^//vf:tests\s+(.+)$`)

// BuildOverlay computes the overlay: normalised common.go plus harness files.
// harnessRoot mirrors the module layout: <harnessRoot>/<rel pkg dir>/zz_vf_*.go.
// apiFile is copied into every package directory that receives a harness.
func BuildOverlay(repoSrc, harnessRoot, apiFile string, only map[string]bool) (map[string][]byte, []string, error) {
	ov := map[string][]byte{}
	var notes []string
	cpath := filepath.Join(repoSrc, "redis-shake/common/common.go")
	if src, err := os.ReadFile(cpath); err == nil {
		out, n, err := DedupeConstBlocks(src)
		if err != nil {
			return nil, nil, fmt.Errorf("normalising common.go: %v", err)
		}
		if n > 0 {
			ov[cpath] = out
			notes = append(notes, fmt.Sprintf("common.go: %d verbatim duplicate declaration block(s) blanked in the overlay", n))
		}
	}
	api, err := os.ReadFile(apiFile)
	if err != nil {
		return nil, nil, err
	}
	err = filepath.Walk(harnessRoot, func(p string, info os.FileInfo, err error) error {
		if err != nil || info.IsDir() || !strings.HasSuffix(p, ".go") {
			return err
		}
		rel, _ := filepath.Rel(harnessRoot, filepath.Dir(p))
		if only != nil && !only[rel] {
			return nil
		}
		src, err := os.ReadFile(p)
		if err != nil {
			return err
		}
		dst := filepath.Join(repoSrc, rel, filepath.Base(p))
		ov[dst] = src
		// shared specification files requested by //vf:use <name>
		for _, m := range useDirective.FindAllSubmatch(src, -1) {
			sp := filepath.Join(filepath.Dir(apiFile), "spec", string(m[1])+".go")
			ssrc, err := os.ReadFile(sp)
			if err != nil {
				return fmt.Errorf("%s: //vf:use %s: %v", p, m[1], err)
			}
			pcl := pkgClause.Find(src)
			ov[filepath.Join(repoSrc, rel, "zz_vf_spec_"+string(m[1])+".go")] = pkgClause.ReplaceAll(ssrc, pcl)
		}
		// the package's own test files, made part of the package under another name so that the
		// engine can run the repo's tests (//vf:tests a_test.go b_test.go); in-package tests only
		for _, m := range testsDirective.FindAllSubmatch(src, -1) {
			for _, tf := range strings.Fields(string(m[1])) {
				tsrc, err := os.ReadFile(filepath.Join(repoSrc, rel, tf))
				if err != nil {
					return fmt.Errorf("%s: //vf:tests %s: %v", p, tf, err)
				}
				ov[filepath.Join(repoSrc, rel, "zz_vf_t_"+strings.TrimSuffix(tf, "_test.go")+".go")] = tsrc
			}
		}
		// api file with the package clause of this harness
		pc := pkgClause.Find(src)
		if pc == nil {
			return fmt.Errorf("%s: no package clause", p)
		}
		apiDst := filepath.Join(repoSrc, rel, "zz_vf_api.go")
		if _, ok := ov[apiDst]; !ok {
			ov[apiDst] = pkgClause.ReplaceAll(api, pc)
		}
		return nil
	})
	if err != nil {
		return nil, nil, err
	}
	return ov, notes, nil
}

// Load type-checks and builds SSA for the given package patterns (relative to
// repoSrc) with the overlay applied.
func Load(repoSrc string, patterns []string, overlay map[string][]byte) (*Loaded, error) {
	cfg := &packages.Config{
		Mode:    packages.LoadAllSyntax,
		Dir:     repoSrc,
		Overlay: overlay,
		Env:     append(os.Environ(), "GOFLAGS=-mod=mod", "GOPROXY=off", "GOSUMDB=off", "GOTOOLCHAIN=local"),
	}
	pkgs, err := packages.Load(cfg, patterns...)
	if err != nil {
		return nil, err
	}
	var errs []string
	packages.Visit(pkgs, nil, func(p *packages.Package) {
		for _, e := range p.Errors {
			errs = append(errs, e.Error())
		}
	})
	if len(errs) > 0 {
		sort.Strings(errs)
		if len(errs) > 12 {
			errs = errs[:12]
		}
		return nil, fmt.Errorf("package errors:\n  %s", strings.Join(errs, "\n  "))
	}
	prog, spkgs := ssautil.AllPackages(pkgs, ssa.InstantiateGenerics|ssa.SanityCheckFunctions)
	prog.Build()
	l := &Loaded{Prog: prog, Pkgs: pkgs, SSA: map[string]*ssa.Package{}, Overlay: overlay}
	for i, p := range pkgs {
		if spkgs[i] != nil {
			l.SSA[p.PkgPath] = spkgs[i]
		}
	}
	return l, nil
}

// ---------------------------------------------------------------------------
// package initialisation

var stdInitAllow = map[string]bool{
	"errors": true, "io": true, "bytes": true, "strings": true, "strconv": true, "unicode": true,
	"unicode/utf8": true, "bufio": true, "encoding/binary": true, "hash": true, "math": true,
	"math/bits": true, "sort": true, "encoding/base64": true, "encoding/hex": true, "hash/crc64": true,
	"container/list": true, "slices": true, "cmp": true, "io/ioutil": true, "internal/bytealg": false,
	"hash/crc32": false, "internal/oserror": true, "path": true, "internal/itoa": true,
	"internal/stringslite": true, "unicode/utf16": true, "time": true,
	"io/fs": true, "context": true, "log": true, "path/filepath": true, "encoding": true, "iter": true, "net/url": true, "os": true, "internal/godebug": true, "math/rand": true,
}

func isStd(path string) bool {
	first := path
	if i := strings.Index(path, "/"); i >= 0 {
		first = path[:i]
	}
	return !strings.Contains(first, ".")
}

func initAllowed(path string) bool {
	if isStd(path) {
		return stdInitAllow[path]
	}
	return true
}

// RunInit executes the package initialisers (concretely) of pkg and its
// imports, subject to the allow-list.
func (e *Engine) RunInit(pkg *ssa.Package) {
	saveOpts := e.opts
	e.opts.Concrete = true
	e.opts.MaxSteps = 400_000_000
	e.res = &Result{}
	e.res.Stats.PathsByEnd = map[string]int{}
	e.varCount = map[string]int{}
	e.varByName = map[string]*Term{}
	e.extra = map[string]interface{}{}
	e.obsTerms = map[string][]*Term{}
	e.obsUnsigned = map[string]map[int]bool{}
	e.model = NewModel()
	e.epoch = 0
	e.runInitPkg(pkg)
	if len(e.initSkipped) > 0 {
		sort.Strings(e.initSkipped)
		e.InitNotes = append(e.InitNotes, "standard-library packages whose initialisers are not executed (their package-level variables are zero unless modelled): "+strings.Join(e.initSkipped, " "))
		e.initSkipped = nil
	}
	e.opts = saveOpts
	e.res = nil
}

func (e *Engine) runInitPkg(pkg *ssa.Package) {
	if e.initDone[pkg] {
		return
	}
	e.initDone[pkg] = true
	if !initAllowed(pkg.Pkg.Path()) {
		if pkg.Func("init") != nil && len(pkg.Func("init").Blocks) > 0 {
			e.initSkipped = append(e.initSkipped, pkg.Pkg.Path())
		}
		return
	}
	// dependencies first, in import order
	for _, imp := range pkg.Pkg.Imports() {
		if ip := e.prog.Package(imp); ip != nil {
			e.runInitPkg(ip)
		}
	}
	fn := pkg.Func("init")
	if fn == nil {
		return
	}
	t0 := time.Now()
	defer func() {
		if d := time.Since(t0).Seconds(); d > 0.3 {
			e.InitNotes = append(e.InitNotes, fmt.Sprintf("init of %s took %.1fs (%d steps)", pkg.Pkg.Path(), d, e.steps))
		}
	}()
	func() {
		defer func() {
			if r := recover(); r != nil {
				if pe, ok := r.(pathEnd); ok {
					e.InitNotes = append(e.InitNotes, fmt.Sprintf("init of %s stopped: %s %s", pkg.Pkg.Path(), pe.kind, pe.msg))
					return
				}
				panic(r)
			}
		}()
		e.gs = nil
		e.nextG = 0
		e.steps = 0
		g := e.newG()
		e.cur = g
		e.pushFrame(g, fn, nil, nil)
		e.schedule()
	}()
}
