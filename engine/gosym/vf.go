package gosym

import (
	"fmt"
	"go/types"
	"math"
	"reflect"
	"sort"
	"strconv"
	"strings"

	"golang.org/x/tools/go/ssa"
)

var vfIntrinsics = map[string]intrinsic{}

func concStr(v Value) string {
	s := v.(Str)
	if !s.Concrete() {
		panic(pathEnd{kind: endUnsupported, msg: "vf tag/message must be a concrete string"})
	}
	return s.s
}

func init() {
	scalar := func(w int) intrinsic {
		return func(c *callCtx, a []Value) (Value, callStatus) {
			return c.e.fresh(concStr(a[0]), w), callDone
		}
	}
	vfIntrinsics["vfByte"] = scalar(8)
	vfIntrinsics["vfUint16"] = scalar(16)
	vfIntrinsics["vfUint32"] = scalar(32)
	vfIntrinsics["vfInt32"] = scalar(32)
	vfIntrinsics["vfInt64"] = scalar(64)
	vfIntrinsics["vfUint64"] = scalar(64)
	vfIntrinsics["vfInt"] = scalar(64)
	vfIntrinsics["vfBool"] = func(c *callCtx, a []Value) (Value, callStatus) {
		b := c.e.fresh(concStr(a[0]), 8)
		c.e.assume(Bin(OpULe, b, BV(8, 1)))
		return Eq(b, BV(8, 1)), callDone
	}
	vfIntrinsics["vfBytes"] = func(c *callCtx, a []Value) (Value, callStatus) {
		n := int(c.e.concInt(termArg(a[1]), nil))
		ts := make([]*Term, n)
		tag := concStr(a[0])
		for i := range ts {
			ts[i] = c.e.fresh(fmt.Sprintf("%s.%d", tag, i), 8)
		}
		return c.e.newByteSlice(ts), callDone
	}
	vfIntrinsics["vfStr"] = func(c *callCtx, a []Value) (Value, callStatus) {
		n := int(c.e.concInt(termArg(a[1]), nil))
		ts := make([]*Term, n)
		tag := concStr(a[0])
		for i := range ts {
			ts[i] = c.e.fresh(fmt.Sprintf("%s.%d", tag, i), 8)
		}
		if n == 0 {
			return Str{}, callDone
		}
		return mkStr(ts), callDone
	}
	vfIntrinsics["vfChoice"] = func(c *callCtx, a []Value) (Value, callStatus) {
		n := c.e.concInt(termArg(a[1]), nil)
		v := c.e.fresh(concStr(a[0]), 64)
		c.e.assume(Bin(OpULt, v, BV(64, uint64(n))))
		return v, callDone
	}
	vfIntrinsics["vfPick"] = func(c *callCtx, a []Value) (Value, callStatus) {
		n := c.e.concInt(termArg(a[1]), nil)
		v := c.e.fresh(concStr(a[0]), 64)
		c.e.assume(Bin(OpULt, v, BV(64, uint64(n))))
		return BV(64, c.e.concretize(v)), callDone
	}
	vfIntrinsics["vfConc"] = func(c *callCtx, a []Value) (Value, callStatus) {
		t := termArg(a[0])
		return BV(t.W, c.e.concretize(t)), callDone
	}
	vfIntrinsics["vfConcByte"] = vfIntrinsics["vfConc"]
	vfIntrinsics["vfAssume"] = func(c *callCtx, a []Value) (Value, callStatus) {
		c.e.assume(termArg(a[0]))
		return nil, callDone
	}
	vfIntrinsics["vfAssert"] = func(c *callCtx, a []Value) (Value, callStatus) {
		c.e.assert(termArg(a[0]), concStr(a[1]), "", nil)
		return nil, callDone
	}
	vfIntrinsics["vfAssertK"] = func(c *callCtx, a []Value) (Value, callStatus) {
		c.e.assert(termArg(a[0]), concStr(a[1]), concStr(a[2]), termArg(a[3]))
		return nil, callDone
	}
	vfIntrinsics["vfAssertTwin"] = func(c *callCtx, a []Value) (Value, callStatus) {
		e := c.e
		idx := e.assertIdx
		e.assertIdx++
		if idx < e.assertsDn {
			return nil, callDone
		}
		t := termArg(a[0])
		if t.IsTrue() {
			e.res.Stats.TwinHeld++
			return nil, callDone
		}
		r, _ := e.check(Not(t))
		if r == Sat {
			e.res.Stats.TwinViolated++
		} else if r == Unsat {
			e.res.Stats.TwinHeld++
		}
		return nil, callDone
	}
	vfIntrinsics["vfAnd"] = func(c *callCtx, a []Value) (Value, callStatus) { return And(termArg(a[0]), termArg(a[1])), callDone }
	vfIntrinsics["vfOr"] = func(c *callCtx, a []Value) (Value, callStatus) { return Or(termArg(a[0]), termArg(a[1])), callDone }
	vfIntrinsics["vfNot"] = func(c *callCtx, a []Value) (Value, callStatus) { return Not(termArg(a[0])), callDone }
	vfIntrinsics["vfImplies"] = func(c *callCtx, a []Value) (Value, callStatus) {
		return Implies(termArg(a[0]), termArg(a[1])), callDone
	}
	vfIntrinsics["vfIteInt"] = func(c *callCtx, a []Value) (Value, callStatus) {
		return Ite(termArg(a[0]), termArg(a[1]), termArg(a[2])), callDone
	}
	vfIntrinsics["vfIteByte"] = vfIntrinsics["vfIteInt"]
	vfIntrinsics["vfIteU64"] = vfIntrinsics["vfIteInt"]
	vfIntrinsics["vfEqBytes"] = func(c *callCtx, a []Value) (Value, callStatus) {
		x, y := a[0].(Slice), a[1].(Slice)
		if x.len != y.len {
			return False, callDone
		}
		r := True
		for i := 0; i < x.len; i++ {
			r = And(r, Eq(x.obj.get(x.off+i).(*Term), y.obj.get(y.off+i).(*Term)))
		}
		return r, callDone
	}
	vfIntrinsics["vfEqStr"] = func(c *callCtx, a []Value) (Value, callStatus) {
		return c.e.valuesEqual(a[0], a[1]), callDone
	}
	vfIntrinsics["vfHasPrefix"] = func(c *callCtx, a []Value) (Value, callStatus) {
		s, p := strOf(a[0]), strOf(a[1])
		if p.Len() > s.Len() {
			return False, callDone
		}
		return c.e.valuesEqual(s.Sub(0, p.Len()), p), callDone
	}
	vfIntrinsics["vfObserve"] = func(c *callCtx, a []Value) (Value, callStatus) {
		tag := concStr(a[0])
		var ts []*Term
		uns := map[int]bool{} // positions holding values of unsigned integer types (printed as such)
		if len(a) > 1 {
			sl := a[1].(Slice)
			for i := 0; i < sl.len; i++ {
				iv := sl.obj.get(sl.off + i).(Iface)
				switch x := iv.v.(type) {
				case *Term:
					if x.W == 0 {
						ts = append(ts, BoolToBV(x, 1))
					} else {
						if iv.t != nil && isInteger(iv.t) && !isSigned(iv.t) {
							uns[len(ts)] = true
						}
						ts = append(ts, x)
					}
				case Str:
					ts = append(ts, x.Terms()...)
				case Slice:
					for j := 0; j < x.len*x.esz; j++ {
						if t, ok := x.obj.get(x.off + j).(*Term); ok {
							ts = append(ts, t)
						}
					}
				}
			}
		}
		k := tag
		for n := 1; ; n++ {
			if _, dup := c.e.obsTerms[k]; !dup {
				break
			}
			k = fmt.Sprintf("%s#%d", tag, n)
		}
		c.e.obsTerms[k] = ts
		c.e.obsUnsigned[k] = uns
		return nil, callDone
	}
	vfIntrinsics["vfYield"] = func(c *callCtx, a []Value) (Value, callStatus) {
		if c.e.schedPoint(c.g) {
			return nil, callYield
		}
		return nil, callDone
	}
	vfIntrinsics["vfExpectAbort"] = func(c *callCtx, a []Value) (Value, callStatus) {
		c.e.expectAbt = true
		return nil, callDone
	}
	vfIntrinsics["vfNoExpectAbort"] = func(c *callCtx, a []Value) (Value, callStatus) {
		c.e.expectAbt = false
		return nil, callDone
	}
	vfIntrinsics["vfAllowAbort"] = func(c *callCtx, a []Value) (Value, callStatus) {
		c.e.allowAbt = append(c.e.allowAbt, allowRec{id: concStr(a[0]), cond: termArg(a[1])})
		return nil, callDone
	}
	vfIntrinsics["vfClearAllowAbort"] = func(c *callCtx, a []Value) (Value, callStatus) {
		c.e.allowAbt = nil
		return nil, callDone
	}
	vfIntrinsics["vfMapOrder"] = func(c *callCtx, a []Value) (Value, callStatus) {
		c.e.extra["mapOrder"] = int(termArg(a[0]).SInt())
		return nil, callDone
	}
	vfIntrinsics["vfFail"] = func(c *callCtx, a []Value) (Value, callStatus) {
		panic(pathEnd{kind: endFail, msg: "vfFail: " + concStr(a[0])})
	}
	vfIntrinsics["vfParam"] = func(c *callCtx, a []Value) (Value, callStatus) {
		if v, ok := c.e.params[concStr(a[0])]; ok {
			return BV(64, uint64(v)), callDone
		}
		return a[1], callDone
	}
	vfIntrinsics["vfStub"] = func(c *callCtx, a []Value) (Value, callStatus) {
		name := concStr(a[0])
		f := a[1].(Iface)
		cl, ok := f.v.(*Closure)
		if !ok {
			panic(pathEnd{kind: endUnsupported, msg: "vfStub: not a function"})
		}
		if c.e.findFunc(name) == nil {
			panic(pathEnd{kind: endUnsupported, msg: "vfStub: no such function " + name})
		}
		c.e.stubs[name] = cl
		return nil, callDone
	}
	vfIntrinsics["vfUnstub"] = func(c *callCtx, a []Value) (Value, callStatus) {
		delete(c.e.stubs, concStr(a[0]))
		return nil, callDone
	}
	vfIntrinsics["vfPark"] = func(c *callCtx, a []Value) (Value, callStatus) {
		c.g.parkOK = true
		c.e.block(c.g, "vfPark", func() bool { return false }, nil)
		return nil, callBlocked
	}
	vfIntrinsics["vfIsConcrete"] = func(c *callCtx, a []Value) (Value, callStatus) {
		sl := a[0].(Slice)
		for i := 0; i < sl.len; i++ {
			if t, ok := sl.obj.get(sl.off + i).(*Term); ok && !t.IsConst() {
				return False, callDone
			}
		}
		return True, callDone
	}
	vfIntrinsics["vfWaitFor"] = func(c *callCtx, a []Value) (Value, callStatus) {
		cond := a[0].(*Closure)
		e, g := c.e, c.g
		test := func() bool {
			depth := len(g.stack)
			st := g.status
			g.status = gRunnable
			v := e.callSync(g, cond, nil)
			g.status = st
			if len(g.stack) != depth {
				panic(pathEnd{kind: endUnsupported, msg: "vfWaitFor: condition changed the stack"})
			}
			t, ok := v.(*Term)
			if !ok || !t.IsConst() {
				panic(pathEnd{kind: endUnsupported, msg: "vfWaitFor: symbolic condition"})
			}
			return t.V == 1
		}
		if test() {
			return nil, callDone
		}
		e.block(g, "vfWaitFor", test, func() { c.finish(nil) })
		return nil, callBlocked
	}
	vfIntrinsics["vfIdle"] = func(c *callCtx, a []Value) (Value, callStatus) {
		// blocks until no other goroutine can run: models "time passes" (a timer
		// fires) only when the program is quiescent
		e, g := c.e, c.g
		g.idleWaiter = true
		quiet := func() bool {
			for _, o := range e.gs {
				if o == g || o.idleWaiter {
					continue
				}
				if o.status == gRunnable {
					return false
				}
				if o.status == gBlocked && o.ready != nil && o.ready() {
					return false
				}
			}
			return true
		}
		e.block(g, "vfIdle", quiet, func() { g.idleWaiter = false; c.finish(nil) })
		return nil, callBlocked
	}
	vfIntrinsics["vfConcBool"] = func(c *callCtx, a []Value) (Value, callStatus) {
		return Bool(c.e.branch(termArg(a[0]))), callDone
	}
	vfIntrinsics["vfSymbolic"] = func(c *callCtx, a []Value) (Value, callStatus) {
		return Bool(!c.e.opts.Concrete && c.e.opts.ForcedModel == nil), callDone
	}
	vfIntrinsics["vfSecret"] = func(c *callCtx, a []Value) (Value, callStatus) {
		s := strOf(a[1])
		c.e.secrets = append(c.e.secrets, secretRec{name: concStr(a[0]), ts: s.Terms()})
		return nil, callDone
	}
	vfIntrinsics["vfCheckNoSecret"] = func(c *callCtx, a []Value) (Value, callStatus) {
		c.e.checkNoSecret(concStr(a[0]), strOf(a[1]))
		return nil, callDone
	}
	vfIntrinsics["vfLogCount"] = func(c *callCtx, a []Value) (Value, callStatus) {
		return BV(64, uint64(len(c.e.logSink))), callDone
	}
	vfIntrinsics["vfJSON"] = func(c *callCtx, a []Value) (Value, callStatus) {
		var out []*Term
		iv := a[0].(Iface)
		if iv.t == nil {
			putS(&out, "null")
		} else {
			c.e.jsonValue(c.g, &out, iv.v, iv.t, 0)
		}
		return mkStr(out), callDone
	}
	vfIntrinsics["vfSprint"] = func(c *callCtx, a []Value) (Value, callStatus) {
		sl := a[0].(Slice)
		var args []Value
		for i := 0; i < sl.len; i++ {
			args = append(args, sl.obj.get(sl.off+i))
		}
		return c.e.sprint(c.g, args, false), callDone
	}
}

type secretRec struct {
	name string
	ts   []*Term
}

// checkNoSecret reports a violation when text provably contains a secret for
// every value of the secret (i.e. the secret flows into the text).
func (e *Engine) checkNoSecret(where string, text Str) {
	for _, s := range e.secrets {
		n := len(s.ts)
		if n == 0 || text.Len() < n {
			continue
		}
		tt := text.Terms()
		contains := False
		for i := 0; i+n <= len(tt); i++ {
			eq := True
			for j := 0; j < n; j++ {
				eq = And(eq, Eq(tt[i+j], s.ts[j]))
			}
			contains = Or(contains, eq)
		}
		// The secret is an unconstrained symbolic string. If for EVERY value of the
		// secret the text contains it, the secret flows into the text: leak. If some
		// value is not contained, an occurrence is a coincidence of that value.
		if contains.IsFalse() {
			continue
		}
		e.res.Stats.Asserts++
		r := Unsat
		if !contains.IsTrue() {
			r, _ = e.check(Not(contains))
		}
		switch r {
		case Sat:
			e.res.Stats.AssertsUnsat++ // obligation discharged: not a flow
		case Unsat:
			e.res.Stats.AssertsSat++
			msg := fmt.Sprintf("secret %s appears in %s", s.name, where)
			e.res.Violations = append(e.res.Violations, Violation{Harness: e.harness, Kind: "assert", Msg: msg, Model: e.modelMap(e.model),
				Decisions: append([]Decision(nil), e.taken...), Observed: map[string]string{"text": text.String()}})
		default:
			e.markInconclusive("solver unknown on secret-flow query")
		}
	}
}

func (e *Engine) findFunc(name string) *ssa.Function {
	if e.fnByName == nil {
		e.fnByName = map[string]*ssa.Function{}
		for _, p := range e.prog.AllPackages() {
			for _, m := range p.Members {
				switch x := m.(type) {
				case *ssa.Function:
					e.fnByName[x.String()] = x
				case *ssa.Type:
					for _, t := range []types.Type{x.Type(), types.NewPointer(x.Type())} {
						ms := e.prog.MethodSets.MethodSet(t)
						for i := 0; i < ms.Len(); i++ {
							if f := e.prog.MethodValue(ms.At(i)); f != nil {
								e.fnByName[f.String()] = f
							}
						}
					}
				}
			}
		}
	}
	return e.fnByName[name]
}

// ---------------------------------------------------------------------------
// log package model

var logNames = map[string]bool{}

func init() {
	for _, lv := range []string{"Panic", "Error", "Warn", "Info", "Debug"} {
		for _, sfx := range []string{"", "f", "Error", "Errorf"} {
			logNames[lv+sfx] = true
		}
	}
	for _, n := range []string{"Print", "Printf", "Println", "PurePrintf"} {
		logNames[n] = true
	}
}

func logIntrinsic(fn *ssa.Function) intrinsic {
	name := fn.Name()
	if !logNames[name] {
		return nil
	}
	isMethod := fn.Signature.Recv() != nil
	return func(c *callCtx, a []Value) (Value, callStatus) {
		if isMethod {
			a = a[1:]
		}
		c.e.logSink = append(c.e.logSink, logRec{fn: name, args: a})
		if len(c.e.secrets) > 0 || strings.HasPrefix(name, "Panic") {
			txt := c.e.renderLog(c.g, name, a)
			if len(c.e.secrets) > 0 {
				c.e.checkNoSecret("log."+name, txt)
			}
			if strings.HasPrefix(name, "Panic") {
				panic(pathEnd{kind: endAbort, msg: "log." + name + ": " + txt.String()})
			}
		}
		return nil, callDone
	}
}

func (e *Engine) renderLog(g *G, name string, a []Value) Str {
	var parts []Str
	i := 0
	if strings.Contains(name, "Error") && name != "Error" && name != "Errorf" || strings.HasSuffix(name, "ErrorError") {
		// first arg is err
		if len(a) > 0 {
			if iv, ok := a[0].(Iface); ok {
				parts = append(parts, e.sprint(g, []Value{iv}, false))
				i = 1
			}
		}
	}
	if strings.HasSuffix(name, "f") && i < len(a) {
		if f, ok := a[i].(Str); ok {
			var args []Value
			if i+1 < len(a) {
				sl := a[i+1].(Slice)
				for k := 0; k < sl.len; k++ {
					args = append(args, sl.obj.get(sl.off+k))
				}
			}
			parts = append(parts, e.sprintf(g, f, args))
		}
	} else if i < len(a) {
		if sl, ok := a[i].(Slice); ok {
			var args []Value
			for k := 0; k < sl.len; k++ {
				args = append(args, sl.obj.get(sl.off+k))
			}
			parts = append(parts, e.sprint(g, args, false))
		}
	}
	var ts []*Term
	for k, p := range parts {
		if k > 0 {
			ts = append(ts, BV(8, ' '))
		}
		ts = append(ts, p.Terms()...)
	}
	if len(ts) == 0 {
		return Str{}
	}
	return mkStr(ts)
}

// ---------------------------------------------------------------------------
// fmt model

func init() {
	varargs := func(v Value) []Value {
		sl := v.(Slice)
		var args []Value
		for k := 0; k < sl.len; k++ {
			args = append(args, sl.obj.get(sl.off+k))
		}
		return args
	}
	intrinsics["fmt.Sprintf"] = func(c *callCtx, a []Value) (Value, callStatus) {
		return c.e.sprintf(c.g, strOf(a[0]), varargs(a[1])), callDone
	}
	intrinsics["fmt.Sprint"] = func(c *callCtx, a []Value) (Value, callStatus) {
		return c.e.sprint(c.g, varargs(a[0]), false), callDone
	}
	intrinsics["fmt.Sprintln"] = func(c *callCtx, a []Value) (Value, callStatus) {
		return c.e.sprint(c.g, varargs(a[0]), true), callDone
	}
	intrinsics["fmt.Errorf"] = func(c *callCtx, a []Value) (Value, callStatus) {
		s := c.e.sprintf(c.g, strOf(a[0]), varargs(a[1]))
		return c.e.mkErrorStr(s), callDone
	}
	wr := func(c *callCtx, w Value, s Str) (Value, callStatus) {
		iw := w.(Iface)
		if iw.t == nil {
			c.e.goPanicRuntime("nil io.Writer")
		}
		var wm *types.Func
		ms := c.e.prog.MethodSets.MethodSet(iw.t)
		for i := 0; i < ms.Len(); i++ {
			if ms.At(i).Obj().Name() == "Write" {
				wm = ms.At(i).Obj().(*types.Func)
			}
		}
		if wm == nil {
			panic(pathEnd{kind: endUnsupported, msg: "Fprintf: writer without Write"})
		}
		fn := c.e.lookupMethod(iw.t, wm)
		buf := c.e.newByteSlice(s.Terms())
		res := c.e.callSync(c.g, &Closure{fn: fn}, []Value{iw.v, buf})
		return res, callDone
	}
	intrinsics["fmt.Fprintf"] = func(c *callCtx, a []Value) (Value, callStatus) {
		return wr(c, a[0], c.e.sprintf(c.g, strOf(a[1]), varargs(a[2])))
	}
	intrinsics["fmt.Fprint"] = func(c *callCtx, a []Value) (Value, callStatus) {
		return wr(c, a[0], c.e.sprint(c.g, varargs(a[1]), false))
	}
	intrinsics["fmt.Fprintln"] = func(c *callCtx, a []Value) (Value, callStatus) {
		return wr(c, a[0], c.e.sprint(c.g, varargs(a[1]), true))
	}
	noop := func(c *callCtx, a []Value) (Value, callStatus) {
		return Tuple{BV(64, 0), Iface{}}, callDone
	}
	intrinsics["fmt.Printf"] = noop
	intrinsics["fmt.Println"] = noop
	intrinsics["fmt.Print"] = noop
}

func (e *Engine) mkErrorStr(s Str) Value {
	p := e.prog.ImportedPackage("errors")
	t := p.Type("errorString").Type()
	o := e.newObj(t)
	o.cells[0] = s
	return Iface{t: types.NewPointer(t), v: Ptr{obj: o}}
}

func (e *Engine) opaque(out *[]*Term) {
	e.opaqueCount++
	*out = append(*out, e.fresh("fmtopaque", 8))
}

func putS(out *[]*Term, s string) {
	for i := 0; i < len(s); i++ {
		*out = append(*out, BV(8, uint64(s[i])))
	}
}

func (e *Engine) sprint(g *G, args []Value, ln bool) Str {
	var out []*Term
	prevStr := false
	for i, a := range args {
		iv := a.(Iface)
		isStr := iv.t != nil && isString(iv.t)
		if i > 0 && (ln || (!isStr && !prevStr)) {
			out = append(out, BV(8, ' '))
		}
		e.fmtIface(g, &out, iv, 'v', false, false, 0)
		prevStr = isStr
	}
	if ln {
		out = append(out, BV(8, '\n'))
	}
	if len(out) == 0 {
		return Str{}
	}
	return mkStr(out)
}

func (e *Engine) sprintf(g *G, format Str, args []Value) Str {
	if !format.Concrete() {
		panic(pathEnd{kind: endUnsupported, msg: "symbolic format string"})
	}
	f := format.s
	var out []*Term
	ai := 0
	for i := 0; i < len(f); i++ {
		ch := f[i]
		if ch != '%' {
			out = append(out, BV(8, uint64(ch)))
			continue
		}
		i++
		if i >= len(f) {
			putS(&out, "%!(NOVERB)")
			break
		}
		plus, sharp := false, false
		spec := "%"
		for i < len(f) && strings.ContainsRune("+-# 0123456789.", rune(f[i])) {
			if f[i] == '+' {
				plus = true
			}
			if f[i] == '#' {
				sharp = true
			}
			spec += string(f[i])
			i++
		}
		if i >= len(f) {
			break
		}
		verb := f[i]
		if verb == '%' {
			out = append(out, BV(8, '%'))
			continue
		}
		if ai >= len(args) {
			putS(&out, "%!"+string(verb)+"(MISSING)")
			continue
		}
		iv := args[ai].(Iface)
		ai++
		e.fmtIfaceSpec(g, &out, iv, verb, plus, sharp, spec)
	}
	if ai < len(args) {
		putS(&out, "%!(EXTRA ")
		for k := ai; k < len(args); k++ {
			if k > ai {
				putS(&out, ", ")
			}
			iv := args[k].(Iface)
			if iv.t == nil {
				putS(&out, "<nil>")
			} else {
				putS(&out, iv.t.String()+"=")
				e.fmtIface(g, &out, iv, 'v', false, false, 0)
			}
		}
		putS(&out, ")")
	}
	if len(out) == 0 {
		return Str{}
	}
	return mkStr(out)
}

// fmtIfaceSpec handles width/precision flags for fully concrete scalars through
// the native fmt, everything else through the structural printer.
func (e *Engine) fmtIfaceSpec(g *G, out *[]*Term, iv Iface, verb byte, plus, sharp bool, spec string) {
	if iv.t != nil && spec != "%" && spec != "%+" && spec != "%#" {
		if t, ok := iv.v.(*Term); ok && t.IsConst() && !e.hasFmtMethod(iv.t) {
			if nv, ok := nativeScalar(t, iv.t); ok {
				putS(out, fmt.Sprintf(spec+string(verb), nv))
				return
			}
		}
		if s, ok := iv.v.(Str); ok && s.Concrete() && !e.hasFmtMethod(iv.t) {
			putS(out, fmt.Sprintf(spec+string(verb), s.s))
			return
		}
	}
	e.fmtIface(g, out, iv, verb, plus, sharp, 0)
}

func nativeScalar(t *Term, typ types.Type) (interface{}, bool) {
	b, ok := typ.Underlying().(*types.Basic)
	if !ok {
		return nil, false
	}
	switch {
	case b.Info()&types.IsBoolean != 0:
		return t.V == 1, true
	case b.Info()&types.IsFloat != 0:
		return fbits(t, t.W), true
	case b.Info()&types.IsInteger != 0:
		if b.Info()&types.IsUnsigned != 0 {
			switch t.W {
			case 8:
				return uint8(t.V), true
			case 16:
				return uint16(t.V), true
			case 32:
				return uint32(t.V), true
			}
			return t.V, true
		}
		switch t.W {
		case 8:
			return int8(t.SInt()), true
		case 16:
			return int16(t.SInt()), true
		case 32:
			return int32(t.SInt()), true
		}
		return t.SInt(), true
	}
	return nil, false
}

func (e *Engine) methodByName(t types.Type, name string) *ssa.Function {
	ms := e.prog.MethodSets.MethodSet(t)
	for i := 0; i < ms.Len(); i++ {
		o := ms.At(i).Obj()
		if o.Name() == name {
			sig := o.Type().(*types.Signature)
			if sig.Params().Len() == 0 && sig.Results().Len() == 1 && isString(sig.Results().At(0).Type()) {
				return e.prog.MethodValue(ms.At(i))
			}
		}
	}
	return nil
}

func (e *Engine) hasFmtMethod(t types.Type) bool {
	return e.methodByName(t, "Error") != nil || e.methodByName(t, "String") != nil
}

func (e *Engine) fmtIface(g *G, out *[]*Term, iv Iface, verb byte, plus, sharp bool, depth int) {
	if iv.t == nil {
		if verb == 'v' || verb == 's' {
			putS(out, "<nil>")
		} else {
			putS(out, "%!"+string(verb)+"(<nil>)")
		}
		return
	}
	e.fmtValue(g, out, iv.v, iv.t, verb, plus, sharp, depth)
}

func (e *Engine) fmtValue(g *G, out *[]*Term, v Value, t types.Type, verb byte, plus, sharp bool, depth int) {
	if depth > 6 {
		putS(out, "...")
		return
	}
	if verb == 'T' {
		putS(out, t.String())
		return
	}
	// error / Stringer
	if !sharp && (verb == 'v' || verb == 's' || verb == 'q') {
		isNilPtr := false
		if p, ok := v.(Ptr); ok && p.obj == nil {
			isNilPtr = true
		}
		if !isNilPtr {
			for _, mn := range []string{"Error", "String"} {
				if m := e.methodByName(t, mn); m != nil && m.Blocks != nil {
					r := e.callSync(g, &Closure{fn: m}, []Value{v}).(Str)
					*out = append(*out, r.Terms()...)
					return
				}
			}
		}
	}
	switch u := t.Underlying().(type) {
	case *types.Basic:
		switch x := v.(type) {
		case *Term:
			if !x.IsConst() && u.Info()&types.IsInteger != 0 && (verb == 'v' || verb == 'd') {
				// decimal rendering by the real strconv code, run symbolically
				sp := e.prog.ImportedPackage("strconv")
				if sp != nil {
					var r Value
					if u.Info()&types.IsUnsigned != 0 {
						r = e.callSync(g, &Closure{fn: sp.Func("FormatUint")}, []Value{ZExt(x, 64), BV(64, 10)})
					} else {
						r = e.callSync(g, &Closure{fn: sp.Func("FormatInt")}, []Value{SExt(x, 64), BV(64, 10)})
					}
					*out = append(*out, r.(Str).Terms()...)
					return
				}
			}
			if !x.IsConst() {
				e.opaque(out)
				return
			}
			nv, _ := nativeScalar(x, t)
			vb := verb
			if u.Info()&types.IsInteger != 0 && vb == 's' {
				putS(out, fmt.Sprintf("%%!s(%s=%v)", t.String(), nv))
				return
			}
			putS(out, fmt.Sprintf("%"+string(vb), nv))
		case Str:
			switch verb {
			case 'v', 's':
				*out = append(*out, x.Terms()...)
			case 'q':
				if x.Concrete() {
					putS(out, strconv.Quote(x.s))
				} else {
					putS(out, "\"")
					*out = append(*out, x.Terms()...)
					putS(out, "\"")
				}
			case 'x':
				if x.Concrete() {
					putS(out, fmt.Sprintf("%x", x.s))
				} else {
					for range x.Terms() {
						e.opaque(out)
					}
				}
			default:
				putS(out, "%!"+string(verb)+"(string=")
				*out = append(*out, x.Terms()...)
				putS(out, ")")
			}
		case Ptr:
			putS(out, "0xPTR")
		default:
			e.opaque(out)
		}
	case *types.Pointer:
		p := v.(Ptr)
		if p.obj == nil {
			putS(out, "<nil>")
			return
		}
		if depth == 0 {
			switch u.Elem().Underlying().(type) {
			case *types.Struct, *types.Array, *types.Slice, *types.Map:
				if p.sym != nil {
					p = e.concretizePtr(p)
				}
				putS(out, "&")
				e.fmtValue(g, out, e.loadAt(p.obj, p.off, u.Elem()), u.Elem(), verb, plus, sharp, depth+1)
				return
			}
		}
		putS(out, "0xPTR")
	case *types.Struct:
		a := v.(Agg)
		putS(out, "{")
		l := layoutOf(t)
		for i := 0; i < u.NumFields(); i++ {
			if i > 0 {
				putS(out, " ")
			}
			if plus || sharp {
				putS(out, u.Field(i).Name()+":")
			}
			ft := u.Field(i).Type()
			var fv Value
			if isAgg(ft) {
				fv = a[l.offsets[i] : l.offsets[i]+flatSize(ft)]
				fv = Agg(fv.(Agg))
			} else {
				fv = a[l.offsets[i]]
			}
			if _, isI := ft.Underlying().(*types.Interface); isI {
				e.fmtIface(g, out, fv.(Iface), verb, plus, sharp, depth+1)
			} else {
				e.fmtValue(g, out, fv, ft, verb, plus, sharp, depth+1)
			}
		}
		putS(out, "}")
	case *types.Slice:
		s := v.(Slice)
		if bitWidth(u.Elem()) == 8 && (verb == 's' || verb == 'q' || verb == 'x') {
			if s.obj == nil {
				if verb == 'q' {
					putS(out, "\"\"")
				}
				return
			}
			e.fmtValue(g, out, e.sliceToStr(s), types.Typ[types.String], verb, plus, sharp, depth+1)
			return
		}
		putS(out, "[")
		for i := 0; i < s.len; i++ {
			if i > 0 {
				putS(out, " ")
			}
			ev := e.loadAt(s.obj, s.off+i*s.esz, u.Elem())
			if _, isI := u.Elem().Underlying().(*types.Interface); isI {
				e.fmtIface(g, out, ev.(Iface), verb, plus, sharp, depth+1)
			} else {
				e.fmtValue(g, out, ev, u.Elem(), verb, plus, sharp, depth+1)
			}
		}
		putS(out, "]")
	case *types.Array:
		a := v.(Agg)
		es := flatSize(u.Elem())
		putS(out, "[")
		for i := 0; i < int(u.Len()); i++ {
			if i > 0 {
				putS(out, " ")
			}
			var ev Value
			if isAgg(u.Elem()) {
				ev = Agg(a[i*es : (i+1)*es])
			} else {
				ev = a[i]
			}
			e.fmtValue(g, out, ev, u.Elem(), verb, plus, sharp, depth+1)
		}
		putS(out, "]")
	case *types.Map:
		m := v.(*MapObj)
		putS(out, "map[")
		if m != nil {
			type kv struct {
				k  string
				en mapEntry
			}
			var kvs []kv
			for _, en := range m.entries {
				if en.live {
					kvs = append(kvs, kv{describe(en.k), en})
				}
			}
			sort.Slice(kvs, func(i, j int) bool { return kvs[i].k < kvs[j].k })
			for i, x := range kvs {
				if i > 0 {
					putS(out, " ")
				}
				if _, isI := u.Key().Underlying().(*types.Interface); isI {
					e.fmtIface(g, out, x.en.k.(Iface), verb, plus, sharp, depth+1)
				} else {
					e.fmtValue(g, out, x.en.k, u.Key(), verb, plus, sharp, depth+1)
				}
				putS(out, ":")
				if _, isI := u.Elem().Underlying().(*types.Interface); isI {
					e.fmtIface(g, out, x.en.v.(Iface), verb, plus, sharp, depth+1)
				} else {
					e.fmtValue(g, out, x.en.v, u.Elem(), verb, plus, sharp, depth+1)
				}
			}
		}
		putS(out, "]")
	case *types.Interface:
		e.fmtIface(g, out, v.(Iface), verb, plus, sharp, depth)
	default:
		putS(out, "0xPTR")
	}
}

var _ = math.Abs

// jsonValue renders v the way encoding/json walks it — exported struct fields (named by their json
// tag), pointers followed at any depth, maps with sorted keys, slices, dynamic values of interfaces;
// String()/Error() methods are NOT consulted — without escaping strings. It is used to decide
// whether a secret can reach a JSON document; []byte (base64 in real JSON) is rendered opaque, a type
// with its own MarshalJSON/MarshalText is unsupported.
func (e *Engine) jsonValue(g *G, out *[]*Term, v Value, t types.Type, depth int) {
	if depth > 12 {
		panic(pathEnd{kind: endUnsupported, msg: "vfJSON: value nested deeper than 12 (cycle?)"})
	}
	for _, mn := range []string{"MarshalJSON", "MarshalText"} {
		if e.methodByName(t, mn) != nil {
			panic(pathEnd{kind: endUnsupported, msg: "vfJSON: " + t.String() + " has its own " + mn})
		}
	}
	switch u := t.Underlying().(type) {
	case *types.Basic:
		switch x := v.(type) {
		case Str:
			putS(out, "\"")
			*out = append(*out, x.Terms()...)
			putS(out, "\"")
		case *Term:
			if x.W == 0 {
				if x.IsConst() {
					if x.V == 1 {
						putS(out, "true")
					} else {
						putS(out, "false")
					}
				} else {
					e.opaque(out)
				}
				return
			}
			e.fmtValue(g, out, v, t, 'v', false, false, depth+1)
		default:
			e.opaque(out)
		}
	case *types.Pointer:
		p := v.(Ptr)
		if p.obj == nil {
			putS(out, "null")
			return
		}
		if p.sym != nil {
			p = e.concretizePtr(p)
		}
		e.jsonValue(g, out, e.loadAt(p.obj, p.off, u.Elem()), u.Elem(), depth+1)
	case *types.Struct:
		a := v.(Agg)
		l := layoutOf(t)
		putS(out, "{")
		first := true
		for i := 0; i < u.NumFields(); i++ {
			f := u.Field(i)
			if !f.Exported() {
				continue
			}
			name := f.Name()
			if tag := reflect.StructTag(u.Tag(i)).Get("json"); tag != "" {
				tn := strings.Split(tag, ",")[0]
				if tn == "-" && !strings.Contains(tag, ",") {
					continue
				}
				if tn != "" {
					name = tn
				}
			}
			if !first {
				putS(out, ",")
			}
			first = false
			putS(out, "\""+name+"\":")
			ft := f.Type()
			var fv Value
			if isAgg(ft) {
				fv = Agg(a[l.offsets[i] : l.offsets[i]+flatSize(ft)])
			} else {
				fv = a[l.offsets[i]]
			}
			e.jsonValue(g, out, fv, ft, depth+1)
		}
		putS(out, "}")
	case *types.Slice:
		s := v.(Slice)
		if s.obj == nil {
			putS(out, "null")
			return
		}
		if bitWidth(u.Elem()) == 8 && flatSize(u.Elem()) == 1 {
			putS(out, "\"")
			for i := 0; i < (s.len+2)/3*4; i++ {
				e.opaque(out) // base64 text
			}
			putS(out, "\"")
			return
		}
		putS(out, "[")
		for i := 0; i < s.len; i++ {
			if i > 0 {
				putS(out, ",")
			}
			e.jsonValue(g, out, e.loadAt(s.obj, s.off+i*s.esz, u.Elem()), u.Elem(), depth+1)
		}
		putS(out, "]")
	case *types.Array:
		a := v.(Agg)
		es := flatSize(u.Elem())
		putS(out, "[")
		for i := 0; i < int(u.Len()); i++ {
			if i > 0 {
				putS(out, ",")
			}
			var ev Value
			if isAgg(u.Elem()) {
				ev = Agg(a[i*es : (i+1)*es])
			} else {
				ev = a[i]
			}
			e.jsonValue(g, out, ev, u.Elem(), depth+1)
		}
		putS(out, "]")
	case *types.Map:
		m := v.(*MapObj)
		if m == nil {
			putS(out, "null")
			return
		}
		type kv struct {
			k  string
			en mapEntry
		}
		var kvs []kv
		for _, en := range m.entries {
			if en.live {
				kvs = append(kvs, kv{describe(en.k), en})
			}
		}
		sort.Slice(kvs, func(i, j int) bool { return kvs[i].k < kvs[j].k })
		putS(out, "{")
		for i, x := range kvs {
			if i > 0 {
				putS(out, ",")
			}
			if ks, ok := x.en.k.(Str); ok {
				putS(out, "\"")
				*out = append(*out, ks.Terms()...)
				putS(out, "\":")
			} else {
				putS(out, "\"")
				e.fmtValue(g, out, x.en.k, u.Key(), 'v', false, false, depth+1)
				putS(out, "\":")
			}
			e.jsonValue(g, out, x.en.v, u.Elem(), depth+1)
		}
		putS(out, "}")
	case *types.Interface:
		iv := v.(Iface)
		if iv.t == nil {
			putS(out, "null")
			return
		}
		e.jsonValue(g, out, iv.v, iv.t, depth+1)
	default:
		panic(pathEnd{kind: endUnsupported, msg: "vfJSON: " + t.String() + " is not a JSON value"})
	}
}
