// Package gosym is a bounded symbolic executor for Go programs in go/ssa form.
// Scalars are SMT terms; memory layout, types and control are concrete; every
// branch on a non-constant condition is decided by an SMT solver.
package gosym

import (
	"fmt"
	"math"
	"math/bits"
	"strings"
)

type Op uint8

const (
	OpConst Op = iota
	OpVar
	OpNot
	OpAnd
	OpOr
	OpIte
	OpEq
	OpAdd
	OpSub
	OpMul
	OpUDiv
	OpURem
	OpSDiv
	OpSRem
	OpBAnd
	OpBOr
	OpBXor
	OpShl
	OpLShr
	OpAShr
	OpULt
	OpULe
	OpSLt
	OpSLe
	OpConcat
	OpExtract // V = hi<<8|lo
	OpZExt    // to width W
	OpSExt
	OpBNot
	OpNeg
	OpFLt
	OpFLe
	OpFEq
	OpFIsNaN
	OpFIsInf
	OpUF // uninterpreted function Name(args) of width W
)

var opNames = map[Op]string{
	OpNot: "not", OpAnd: "and", OpOr: "or", OpIte: "ite", OpEq: "=",
	OpAdd: "bvadd", OpSub: "bvsub", OpMul: "bvmul", OpUDiv: "bvudiv", OpURem: "bvurem",
	OpSDiv: "bvsdiv", OpSRem: "bvsrem", OpBAnd: "bvand", OpBOr: "bvor", OpBXor: "bvxor",
	OpShl: "bvshl", OpLShr: "bvlshr", OpAShr: "bvashr", OpULt: "bvult", OpULe: "bvule",
	OpSLt: "bvslt", OpSLe: "bvsle", OpConcat: "concat", OpBNot: "bvnot", OpNeg: "bvneg",
}

// Term is a hash-consed SMT term. W==0 means Bool, otherwise a bit-vector of
// width W (1..64).
type Term struct {
	Op   Op
	W    int
	A    []*Term
	V    uint64
	Name string
	id   int
	fw   int // for FP predicates: float width of args
}

type termKey struct {
	op         Op
	w          int
	v          uint64
	a0, a1, a2 int
	name       string
}

type TermTable struct {
	m      map[termKey]*Term
	nextID int
	vars   []*Term
	ufs    map[string]*Term // sample term per UF name (for declaration)
}

var TT = &TermTable{m: map[termKey]*Term{}, ufs: map[string]*Term{}}

func (tt *TermTable) mk(op Op, w int, v uint64, name string, a ...*Term) *Term {
	k := termKey{op: op, w: w, v: v, name: name, a0: -1, a1: -1, a2: -1}
	if len(a) > 0 {
		k.a0 = a[0].id
	}
	if len(a) > 1 {
		k.a1 = a[1].id
	}
	if len(a) > 2 {
		k.a2 = a[2].id
	}
	if len(a) > 3 {
		var sb strings.Builder
		sb.WriteString(name)
		for _, x := range a {
			fmt.Fprintf(&sb, ",%d", x.id)
		}
		k.name = sb.String()
	}
	if t, ok := tt.m[k]; ok {
		return t
	}
	t := &Term{Op: op, W: w, V: v, Name: name, id: tt.nextID}
	if len(a) > 0 {
		t.A = append([]*Term(nil), a...)
	}
	tt.nextID++
	tt.m[k] = t
	if op == OpVar {
		tt.vars = append(tt.vars, t)
	}
	return t
}

func mask(w int) uint64 {
	if w >= 64 {
		return ^uint64(0)
	}
	return (uint64(1) << uint(w)) - 1
}

func (t *Term) IsConst() bool { return t.Op == OpConst }
func (t *Term) IsTrue() bool  { return t.Op == OpConst && t.W == 0 && t.V == 1 }
func (t *Term) IsFalse() bool { return t.Op == OpConst && t.W == 0 && t.V == 0 }
func (t *Term) ID() int       { return t.id }

// signed value of a constant
func (t *Term) SInt() int64 { return signExt(t.V, t.W) }

func signExt(v uint64, w int) int64 {
	if w >= 64 || w == 0 {
		return int64(v)
	}
	sh := uint(64 - w)
	return int64(v<<sh) >> sh
}

var smallConsts [65][]*Term

func BV(w int, v uint64) *Term {
	v &= mask(w)
	if w > 0 && v < 300 {
		if smallConsts[w] == nil {
			smallConsts[w] = make([]*Term, 300)
		}
		if t := smallConsts[w][v]; t != nil {
			return t
		}
		t := TT.mk(OpConst, w, v, "")
		smallConsts[w][v] = t
		return t
	}
	return TT.mk(OpConst, w, v, "")
}

var True = TT.mk(OpConst, 0, 1, "")
var False = TT.mk(OpConst, 0, 0, "")

func Bool(b bool) *Term {
	if b {
		return True
	}
	return False
}

func Var(name string, w int) *Term { return TT.mk(OpVar, w, 0, name) }

func Not(a *Term) *Term {
	if a.Op == OpConst {
		return Bool(a.V == 0)
	}
	if a.Op == OpNot {
		return a.A[0]
	}
	return TT.mk(OpNot, 0, 0, "", a)
}

func And(a, b *Term) *Term {
	if a.Op == OpConst {
		if a.V == 0 {
			return False
		}
		return b
	}
	if b.Op == OpConst {
		if b.V == 0 {
			return False
		}
		return a
	}
	if a == b {
		return a
	}
	return TT.mk(OpAnd, 0, 0, "", a, b)
}

func Or(a, b *Term) *Term {
	if a.Op == OpConst {
		if a.V == 1 {
			return True
		}
		return b
	}
	if b.Op == OpConst {
		if b.V == 1 {
			return True
		}
		return a
	}
	if a == b {
		return a
	}
	return TT.mk(OpOr, 0, 0, "", a, b)
}

func AndAll(ts ...*Term) *Term {
	r := True
	for _, t := range ts {
		r = And(r, t)
	}
	return r
}

func Implies(a, b *Term) *Term { return Or(Not(a), b) }

func Ite(c, a, b *Term) *Term {
	if c.Op == OpConst {
		if c.V == 1 {
			return a
		}
		return b
	}
	if a == b {
		return a
	}
	if a.W != b.W {
		panic(fmt.Sprintf("ite width mismatch %d %d", a.W, b.W))
	}
	if a.W == 0 {
		if a.IsTrue() && b.IsFalse() {
			return c
		}
		if a.IsFalse() && b.IsTrue() {
			return Not(c)
		}
		if a.IsTrue() {
			return Or(c, b)
		}
		if a.IsFalse() {
			return And(Not(c), b)
		}
		if b.IsTrue() {
			return Or(Not(c), a)
		}
		if b.IsFalse() {
			return And(c, a)
		}
	}
	return TT.mk(OpIte, a.W, 0, "", c, a, b)
}

func Eq(a, b *Term) *Term {
	if a.W != b.W {
		panic(fmt.Sprintf("eq width mismatch %d %d: %s %s", a.W, b.W, a, b))
	}
	if a == b {
		return True
	}
	if a.Op == OpConst && b.Op == OpConst {
		return Bool(a.V == b.V)
	}
	if a.W == 0 {
		if a.Op == OpConst {
			if a.V == 1 {
				return b
			}
			return Not(b)
		}
		if b.Op == OpConst {
			if b.V == 1 {
				return a
			}
			return Not(a)
		}
	}
	// canonical order
	if a.id > b.id {
		a, b = b, a
	}
	if a.W > 8 && (a.Op == OpConcat || b.Op == OpConcat) {
		if r := eqBySegments(a, b); r != nil {
			return r
		}
	}
	// eq(zext(x), const) simplification
	if b.Op == OpConst && a.Op == OpZExt {
		x := a.A[0]
		if b.V&^mask(x.W) != 0 {
			return False
		}
		return Eq(x, BV(x.W, b.V))
	}
	if a.Op == OpConst && b.Op == OpZExt {
		x := b.A[0]
		if a.V&^mask(x.W) != 0 {
			return False
		}
		return Eq(x, BV(x.W, a.V))
	}
	// eq(ite(c,k1,k2), k) with constants
	if a.Op == OpConst && b.Op == OpIte && b.A[1].Op == OpConst && b.A[2].Op == OpConst {
		return Ite(b.A[0], Bool(b.A[1].V == a.V), Bool(b.A[2].V == a.V))
	}
	if b.Op == OpConst && a.Op == OpIte && a.A[1].Op == OpConst && a.A[2].Op == OpConst {
		return Ite(a.A[0], Bool(a.A[1].V == b.V), Bool(a.A[2].V == b.V))
	}
	return TT.mk(OpEq, 0, 0, "", a, b)
}

func Ne(a, b *Term) *Term { return Not(Eq(a, b)) }

func foldBin(op Op, w int, x, y uint64) (uint64, bool) {
	m := mask(w)
	switch op {
	case OpAdd:
		return (x + y) & m, true
	case OpSub:
		return (x - y) & m, true
	case OpMul:
		return (x * y) & m, true
	case OpUDiv:
		if y == 0 {
			return m, true
		}
		return x / y, true
	case OpURem:
		if y == 0 {
			return x, true
		}
		return x % y, true
	case OpSDiv:
		sx, sy := signExt(x, w), signExt(y, w)
		if sy == 0 {
			if sx >= 0 {
				return m, true
			}
			return 1, true
		}
		if sy == -1 {
			return uint64(-sx) & m, true
		}
		return uint64(sx/sy) & m, true
	case OpSRem:
		sx, sy := signExt(x, w), signExt(y, w)
		if sy == 0 {
			return x, true
		}
		if sy == -1 {
			return 0, true
		}
		return uint64(sx%sy) & m, true
	case OpBAnd:
		return x & y, true
	case OpBOr:
		return x | y, true
	case OpBXor:
		return x ^ y, true
	case OpShl:
		if y >= uint64(w) {
			return 0, true
		}
		return (x << y) & m, true
	case OpLShr:
		if y >= uint64(w) {
			return 0, true
		}
		return x >> y, true
	case OpAShr:
		sx := signExt(x, w)
		if y >= uint64(w) {
			y = uint64(w - 1)
		}
		return uint64(sx>>y) & m, true
	case OpULt:
		return b2u(x < y), true
	case OpULe:
		return b2u(x <= y), true
	case OpSLt:
		return b2u(signExt(x, w) < signExt(y, w)), true
	case OpSLe:
		return b2u(signExt(x, w) <= signExt(y, w)), true
	}
	return 0, false
}

func b2u(b bool) uint64 {
	if b {
		return 1
	}
	return 0
}

// Bin builds a binary bit-vector operation (arithmetic, bitwise, shift, comparison).
func Bin(op Op, a, b *Term) *Term {
	if a.W != b.W || a.W == 0 {
		panic(fmt.Sprintf("bin %v width mismatch %d %d", op, a.W, b.W))
	}
	w := a.W
	rw := w
	switch op {
	case OpULt, OpULe, OpSLt, OpSLe:
		rw = 0
	}
	if a.Op == OpConst && b.Op == OpConst {
		v, ok := foldBin(op, w, a.V, b.V)
		if ok {
			if rw == 0 {
				return Bool(v == 1)
			}
			return BV(w, v)
		}
	}
	switch op {
	case OpAdd:
		if a.Op == OpConst && a.V == 0 {
			return b
		}
		if b.Op == OpConst && b.V == 0 {
			return a
		}
		if a.Op == OpConst { // constants to the right
			a, b = b, a
		}
		// (x + c1) + c2
		if b.Op == OpConst && a.Op == OpAdd && a.A[1].Op == OpConst {
			return Bin(OpAdd, a.A[0], BV(w, a.A[1].V+b.V))
		}
	case OpSub:
		if b.Op == OpConst && b.V == 0 {
			return a
		}
		if a == b {
			return BV(w, 0)
		}
		if b.Op == OpConst {
			return Bin(OpAdd, a, BV(w, -b.V))
		}
		if a.Op == OpAdd {
			if a.A[0] == b {
				return a.A[1]
			}
			if a.A[1] == b {
				return a.A[0]
			}
		}
	case OpMul:
		if a.Op == OpConst {
			a, b = b, a
		}
		if b.Op == OpConst {
			if b.V == 0 {
				return BV(w, 0)
			}
			if b.V == 1 {
				return a
			}
		}
	case OpBAnd:
		if a.Op == OpConst {
			a, b = b, a
		}
		if b.Op == OpConst {
			if b.V == 0 {
				return BV(w, 0)
			}
			if b.V == mask(w) {
				return a
			}
			// and(zext(x), c) where c covers x's bits
			if a.Op == OpZExt && b.V&mask(a.A[0].W) == mask(a.A[0].W) {
				return a
			}
		}
		if a == b {
			return a
		}
	case OpBOr:
		if a.Op == OpConst {
			a, b = b, a
		}
		if b.Op == OpConst {
			if b.V == 0 {
				return a
			}
			if b.V == mask(w) {
				return b
			}
		}
		if a == b {
			return a
		}
		if r := simplifyOr(a, b); r != nil {
			return r
		}
	case OpBXor:
		if a.Op == OpConst {
			a, b = b, a
		}
		if b.Op == OpConst && b.V == 0 {
			return a
		}
		if a == b {
			return BV(w, 0)
		}
	case OpShl, OpLShr, OpAShr:
		if b.Op == OpConst {
			if b.V == 0 {
				return a
			}
			if b.V >= uint64(w) && op != OpAShr {
				return BV(w, 0)
			}
		}
		if a.Op == OpConst && a.V == 0 {
			return a
		}
	case OpUDiv:
		if b.Op == OpConst && b.V == 1 {
			return a
		}
	case OpULt:
		if a == b {
			return False
		}
		if b.Op == OpConst && b.V == 0 {
			return False
		}
		if a.Op == OpZExt && b.Op == OpConst && b.V > mask(a.A[0].W) {
			return True
		}
		if a.Op == OpZExt && b.Op == OpConst {
			return Bin(OpULt, a.A[0], BV(a.A[0].W, b.V))
		}
	case OpULe:
		if a == b {
			return True
		}
		if a.Op == OpConst && a.V == 0 {
			return True
		}
		if a.Op == OpZExt && b.Op == OpConst && b.V >= mask(a.A[0].W) {
			return True
		}
	case OpSLt:
		if a == b {
			return False
		}
		// zext(x) <s const  with zext strictly widening => non-negative
		if a.Op == OpZExt && a.A[0].W < w && b.Op == OpConst {
			sb := signExt(b.V, w)
			if sb <= 0 {
				return False
			}
			if uint64(sb) > mask(a.A[0].W) {
				return True
			}
			return Bin(OpULt, a.A[0], BV(a.A[0].W, uint64(sb)))
		}
		if b.Op == OpZExt && b.A[0].W < w && a.Op == OpConst {
			sa := signExt(a.V, w)
			if sa < 0 {
				return True
			}
			if uint64(sa) >= mask(b.A[0].W) {
				return False
			}
			return Bin(OpULt, BV(b.A[0].W, uint64(sa)), b.A[0])
		}
	case OpSLe:
		if a == b {
			return True
		}
		if a.Op == OpZExt && a.A[0].W < w && b.Op == OpConst {
			sb := signExt(b.V, w)
			if sb < 0 {
				return False
			}
			if uint64(sb) >= mask(a.A[0].W) {
				return True
			}
			return Bin(OpULe, a.A[0], BV(a.A[0].W, uint64(sb)))
		}
		if b.Op == OpZExt && b.A[0].W < w && a.Op == OpConst {
			sa := signExt(a.V, w)
			if sa <= 0 {
				return True
			}
			if uint64(sa) > mask(b.A[0].W) {
				return False
			}
			return Bin(OpULe, BV(b.A[0].W, uint64(sa)), b.A[0])
		}
	}
	return TT.mk(op, rw, 0, "", a, b)
}

func BNot(a *Term) *Term {
	if a.Op == OpConst {
		return BV(a.W, ^a.V)
	}
	if a.Op == OpBNot {
		return a.A[0]
	}
	return TT.mk(OpBNot, a.W, 0, "", a)
}

func Neg(a *Term) *Term {
	if a.Op == OpConst {
		return BV(a.W, -a.V)
	}
	return TT.mk(OpNeg, a.W, 0, "", a)
}

func Extract(a *Term, hi, lo int) *Term {
	w := hi - lo + 1
	if lo == 0 && w == a.W {
		return a
	}
	if a.Op == OpConst {
		return BV(w, a.V>>uint(lo))
	}
	switch a.Op {
	case OpZExt:
		x := a.A[0]
		if hi < x.W {
			return Extract(x, hi, lo)
		}
		if lo >= x.W {
			return BV(w, 0)
		}
		if lo == 0 {
			return ZExt(x, w)
		}
	case OpSExt:
		x := a.A[0]
		if hi < x.W {
			return Extract(x, hi, lo)
		}
		if lo == 0 {
			return SExt(x, w)
		}
	case OpConcat:
		lw := a.A[1].W
		if hi < lw {
			return Extract(a.A[1], hi, lo)
		}
		if lo >= lw {
			return Extract(a.A[0], hi-lw, lo-lw)
		}
	case OpExtract:
		ilo := int(a.V & 0xff)
		return Extract(a.A[0], hi+ilo, lo+ilo)
	case OpLShr:
		if a.A[1].Op == OpConst {
			k := int(a.A[1].V)
			if k < a.W && hi+k < a.W {
				return Extract(a.A[0], hi+k, lo+k)
			}
		}
	case OpShl:
		if a.A[1].Op == OpConst {
			k := int(a.A[1].V)
			if k < a.W && lo >= k {
				return Extract(a.A[0], hi-k, lo-k)
			}
			if k < a.W && hi < k {
				return BV(w, 0)
			}
		}
	case OpBAnd, OpBOr, OpBXor:
		if a.A[1].Op == OpConst {
			return Bin(a.Op, Extract(a.A[0], hi, lo), Extract(a.A[1], hi, lo))
		}
	case OpIte:
		if a.A[1].Op == OpConst || a.A[2].Op == OpConst {
			return Ite(a.A[0], Extract(a.A[1], hi, lo), Extract(a.A[2], hi, lo))
		}
	}
	return TT.mk(OpExtract, w, uint64(hi)<<8|uint64(lo), "", a)
}

func ZExt(a *Term, w int) *Term {
	if w == a.W {
		return a
	}
	if w < a.W {
		return Extract(a, w-1, 0)
	}
	if a.Op == OpConst {
		return BV(w, a.V)
	}
	if a.Op == OpZExt {
		return ZExt(a.A[0], w)
	}
	return TT.mk(OpZExt, w, 0, "", a)
}

func SExt(a *Term, w int) *Term {
	if w == a.W {
		return a
	}
	if w < a.W {
		return Extract(a, w-1, 0)
	}
	if a.Op == OpConst {
		return BV(w, uint64(signExt(a.V, a.W)))
	}
	if a.Op == OpZExt && a.A[0].W < a.W {
		return ZExt(a.A[0], w)
	}
	if a.Op == OpSExt {
		return SExt(a.A[0], w)
	}
	return TT.mk(OpSExt, w, 0, "", a)
}

func Concat(hi, lo *Term) *Term {
	w := hi.W + lo.W
	if w > 64 {
		panic("concat wider than 64")
	}
	if hi.Op == OpConst && lo.Op == OpConst {
		return BV(w, hi.V<<uint(lo.W)|lo.V)
	}
	if hi.Op == OpConst && hi.V == 0 {
		return ZExt(lo, w)
	}
	if hx, hh, hl := extractParts(hi); true {
		if lx, lh, ll := extractParts(lo); hx == lx && hl == lh+1 && (hi.Op == OpExtract || lo.Op == OpExtract) {
			return Extract(hx, hh, ll)
		}
	}
	return TT.mk(OpConcat, w, 0, "", hi, lo)
}

// BoolToBV converts Bool to a bit-vector 0/1 of width w.
func BoolToBV(c *Term, w int) *Term { return Ite(c, BV(w, 1), BV(w, 0)) }

// FP predicates on IEEE bit patterns (fw = 32 or 64).
func FPred(op Op, fw int, a ...*Term) *Term {
	allc := true
	for _, x := range a {
		if x.Op != OpConst {
			allc = false
		}
	}
	if allc {
		f := func(t *Term) float64 {
			if fw == 32 {
				return float64(math.Float32frombits(uint32(t.V)))
			}
			return math.Float64frombits(t.V)
		}
		switch op {
		case OpFLt:
			return Bool(f(a[0]) < f(a[1]))
		case OpFLe:
			return Bool(f(a[0]) <= f(a[1]))
		case OpFEq:
			return Bool(f(a[0]) == f(a[1]))
		case OpFIsNaN:
			return Bool(math.IsNaN(f(a[0])))
		case OpFIsInf:
			return Bool(math.IsInf(f(a[0]), 0))
		}
	}
	t := TT.mk(op, 0, uint64(fw), "", a...)
	t.fw = fw
	return t
}

func UF(name string, w int, a ...*Term) *Term {
	t := TT.mk(OpUF, w, 0, name, a...)
	if _, ok := TT.ufs[name]; !ok {
		TT.ufs[name] = t
	}
	return t
}

// ---------------------------------------------------------------------------
// Evaluation under a model

type Model struct {
	vals map[int]uint64 // var term id -> value
	memo map[int]uint64
}

func NewModel() *Model { return &Model{vals: map[int]uint64{}, memo: map[int]uint64{}} }

func (m *Model) Clone() *Model {
	n := NewModel()
	for k, v := range m.vals {
		n.vals[k] = v
	}
	return n
}

func (m *Model) Set(v *Term, x uint64) { m.vals[v.id] = x & mask(v.W); m.memo = map[int]uint64{} }

// Eval returns the value of t under the model (unassigned variables are 0).
// ok is false when the term contains an uninterpreted function.
func (m *Model) Eval(t *Term) (uint64, bool) {
	if t.Op == OpConst {
		return t.V, true
	}
	if v, ok := m.memo[t.id]; ok {
		return v, true
	}
	var r uint64
	switch t.Op {
	case OpVar:
		r = m.vals[t.id]
	case OpUF:
		return 0, false
	default:
		var av [3]uint64
		for i, a := range t.A {
			v, ok := m.Eval(a)
			if !ok {
				return 0, false
			}
			if i < 3 {
				av[i] = v
			}
		}
		switch t.Op {
		case OpNot:
			r = 1 - av[0]
		case OpAnd:
			r = av[0] & av[1]
		case OpOr:
			r = av[0] | av[1]
		case OpIte:
			if av[0] == 1 {
				r = av[1]
			} else {
				r = av[2]
			}
		case OpEq:
			r = b2u(av[0] == av[1])
		case OpConcat:
			r = av[0]<<uint(t.A[1].W) | av[1]
		case OpExtract:
			lo := uint(t.V & 0xff)
			r = (av[0] >> lo) & mask(t.W)
		case OpZExt:
			r = av[0]
		case OpSExt:
			r = uint64(signExt(av[0], t.A[0].W)) & mask(t.W)
		case OpBNot:
			r = ^av[0] & mask(t.W)
		case OpNeg:
			r = -av[0] & mask(t.W)
		case OpFLt, OpFLe, OpFEq, OpFIsNaN, OpFIsInf:
			f := func(x uint64) float64 {
				if t.fw == 32 {
					return float64(math.Float32frombits(uint32(x)))
				}
				return math.Float64frombits(x)
			}
			switch t.Op {
			case OpFLt:
				r = b2u(f(av[0]) < f(av[1]))
			case OpFLe:
				r = b2u(f(av[0]) <= f(av[1]))
			case OpFEq:
				r = b2u(f(av[0]) == f(av[1]))
			case OpFIsNaN:
				r = b2u(math.IsNaN(f(av[0])))
			case OpFIsInf:
				r = b2u(math.IsInf(f(av[0]), 0))
			}
		default:
			v, ok := foldBin(t.Op, t.A[0].W, av[0], av[1])
			if !ok {
				panic("eval: unknown op")
			}
			r = v
		}
	}
	m.memo[t.id] = r
	return r, true
}

// ---------------------------------------------------------------------------
// Printing

func sortName(w int) string {
	if w == 0 {
		return "Bool"
	}
	return fmt.Sprintf("(_ BitVec %d)", w)
}

func constSMT(t *Term) string {
	if t.W == 0 {
		if t.V == 1 {
			return "true"
		}
		return "false"
	}
	if t.W%4 == 0 {
		return fmt.Sprintf("#x%0*x", t.W/4, t.V)
	}
	return fmt.Sprintf("#b%0*b", t.W, t.V)
}

func (t *Term) ref() string {
	switch t.Op {
	case OpConst:
		return constSMT(t)
	case OpVar:
		return t.Name
	}
	return fmt.Sprintf("t%d", t.id)
}

func fpOf(fw int, s string) string {
	if fw == 32 {
		return "((_ to_fp 8 24) " + s + ")"
	}
	return "((_ to_fp 11 53) " + s + ")"
}

// body renders the definition of a non-leaf term in terms of refs of its args.
func (t *Term) body() string {
	switch t.Op {
	case OpExtract:
		return fmt.Sprintf("((_ extract %d %d) %s)", t.V>>8, t.V&0xff, t.A[0].ref())
	case OpZExt:
		return fmt.Sprintf("((_ zero_extend %d) %s)", t.W-t.A[0].W, t.A[0].ref())
	case OpSExt:
		return fmt.Sprintf("((_ sign_extend %d) %s)", t.W-t.A[0].W, t.A[0].ref())
	case OpFLt:
		return fmt.Sprintf("(fp.lt %s %s)", fpOf(t.fw, t.A[0].ref()), fpOf(t.fw, t.A[1].ref()))
	case OpFLe:
		return fmt.Sprintf("(fp.leq %s %s)", fpOf(t.fw, t.A[0].ref()), fpOf(t.fw, t.A[1].ref()))
	case OpFEq:
		return fmt.Sprintf("(fp.eq %s %s)", fpOf(t.fw, t.A[0].ref()), fpOf(t.fw, t.A[1].ref()))
	case OpFIsNaN:
		return fmt.Sprintf("(fp.isNaN %s)", fpOf(t.fw, t.A[0].ref()))
	case OpFIsInf:
		return fmt.Sprintf("(fp.isInfinite %s)", fpOf(t.fw, t.A[0].ref()))
	case OpUF:
		var sb strings.Builder
		sb.WriteString("(" + t.Name)
		for _, a := range t.A {
			sb.WriteString(" " + a.ref())
		}
		sb.WriteString(")")
		return sb.String()
	}
	var sb strings.Builder
	sb.WriteString("(" + opNames[t.Op])
	for _, a := range t.A {
		sb.WriteString(" " + a.ref())
	}
	sb.WriteString(")")
	return sb.String()
}

// String renders a term fully (for debugging and small reports).
func (t *Term) String() string {
	switch t.Op {
	case OpConst, OpVar:
		return t.ref()
	}
	var sb strings.Builder
	t.str(&sb, 0)
	return sb.String()
}

func (t *Term) str(sb *strings.Builder, depth int) {
	if t.Op == OpConst || t.Op == OpVar {
		sb.WriteString(t.ref())
		return
	}
	if depth > 6 {
		sb.WriteString("…")
		return
	}
	switch t.Op {
	case OpExtract:
		fmt.Fprintf(sb, "((_ extract %d %d) ", t.V>>8, t.V&0xff)
	case OpZExt:
		fmt.Fprintf(sb, "(zext%d ", t.W)
	case OpSExt:
		fmt.Fprintf(sb, "(sext%d ", t.W)
	case OpUF:
		sb.WriteString("(" + t.Name + " ")
	case OpFLt, OpFLe, OpFEq, OpFIsNaN, OpFIsInf:
		fmt.Fprintf(sb, "(fp%d ", t.Op)
	default:
		sb.WriteString("(" + opNames[t.Op] + " ")
	}
	for i, a := range t.A {
		if i > 0 {
			sb.WriteString(" ")
		}
		a.str(sb, depth+1)
	}
	sb.WriteString(")")
}

// Size returns the number of distinct nodes of the term DAG.
func (t *Term) Size() int {
	seen := map[int]bool{}
	var rec func(*Term)
	rec = func(x *Term) {
		if seen[x.id] {
			return
		}
		seen[x.id] = true
		for _, a := range x.A {
			rec(a)
		}
	}
	rec(t)
	return len(seen)
}

// Vars collects the variables of a term.
func (t *Term) Vars(into map[int]*Term) {
	seen := map[int]bool{}
	var rec func(*Term)
	rec = func(x *Term) {
		if seen[x.id] {
			return
		}
		seen[x.id] = true
		if x.Op == OpVar {
			into[x.id] = x
		}
		for _, a := range x.A {
			rec(a)
		}
	}
	rec(t)
}

var _ = bits.Len
