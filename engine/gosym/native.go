package gosym

import (
	"strconv"
	"strings"
)

// Native fast path: pure standard-library functions executed natively when all
// arguments are concrete (the interpreted body is used otherwise).

func concInt64(v Value) (int64, bool) {
	t, ok := v.(*Term)
	if !ok || !t.IsConst() {
		return 0, false
	}
	return t.SInt(), true
}

func concString(v Value) (string, bool) {
	s, ok := v.(Str)
	if !ok || !s.Concrete() {
		return "", false
	}
	return s.s, true
}

type nativeFn func(e *Engine, a []Value) (Value, bool)

var natives = map[string]nativeFn{
	"strconv.Itoa": func(e *Engine, a []Value) (Value, bool) {
		i, ok := concInt64(a[0])
		if !ok {
			return nil, false
		}
		return Str{s: strconv.Itoa(int(i))}, true
	},
	"strconv.FormatInt": func(e *Engine, a []Value) (Value, bool) {
		i, ok := concInt64(a[0])
		b, ok2 := concInt64(a[1])
		if !ok || !ok2 {
			return nil, false
		}
		return Str{s: strconv.FormatInt(i, int(b))}, true
	},
	"strconv.FormatUint": func(e *Engine, a []Value) (Value, bool) {
		t, ok := a[0].(*Term)
		b, ok2 := concInt64(a[1])
		if !ok || !t.IsConst() || !ok2 {
			return nil, false
		}
		return Str{s: strconv.FormatUint(t.V, int(b))}, true
	},
	"strings.ToLower": func(e *Engine, a []Value) (Value, bool) {
		s, ok := concString(a[0])
		if !ok {
			return nil, false
		}
		return Str{s: strings.ToLower(s)}, true
	},
	"strings.ToUpper": func(e *Engine, a []Value) (Value, bool) {
		s, ok := concString(a[0])
		if !ok {
			return nil, false
		}
		return Str{s: strings.ToUpper(s)}, true
	},
	"strings.HasPrefix": func(e *Engine, a []Value) (Value, bool) {
		s, ok := concString(a[0])
		p, ok2 := concString(a[1])
		if !ok || !ok2 {
			return nil, false
		}
		return Bool(strings.HasPrefix(s, p)), true
	},
	"strings.Contains": func(e *Engine, a []Value) (Value, bool) {
		s, ok := concString(a[0])
		p, ok2 := concString(a[1])
		if !ok || !ok2 {
			return nil, false
		}
		return Bool(strings.Contains(s, p)), true
	},
	"strconv.Quote": func(e *Engine, a []Value) (Value, bool) {
		s, ok := concString(a[0])
		if !ok {
			return nil, false
		}
		return Str{s: strconv.Quote(s)}, true
	},
}
