package gosym

import (
	"math/rand"
	"regexp"
	"regexp/syntax"
	"testing"
)

// the symbolic matcher on constant bytes must agree with the real regexp package
func TestRegexSymAgainstRegexp(t *testing.T) {
	pats := []string{`^role:master`, `(?m)^role:`, `(?m)^role:(slave|replica)`, `^-?\d+$`, `^\s*(-?[\d.]+)\s*([KMGTP]?B|[BKMGTP]|)\s*$`,
		`a*b+c?`, `(ab|a)(c|bcd)$`, `(?m)^x.y$`, `r{2,3}o`, `(?s)a.b`, `^$`, `[^a-c]+:`, `ro(le)*:`}
	alpha := []byte("role:masv\n\r ab-1.KB")
	rng := rand.New(rand.NewSource(1))
	for _, p := range pats {
		re := regexp.MustCompile(p)
		sre, err := syntax.Parse(p, syntax.Perl)
		if err != nil {
			t.Fatal(err)
		}
		sre = sre.Simplify()
		for it := 0; it < 4000; it++ {
			n := rng.Intn(9)
			b := make([]byte, n)
			for i := range b {
				b[i] = alpha[rng.Intn(len(alpha))]
			}
			r := &reSym{s: Str{s: string(b)}, n: n, ok: true}
			res := False
			for i := 0; i <= n; i++ {
				mm := r.match(sre, i)
				for _, q := range mm.keys() {
					res = Or(res, mm[q])
				}
			}
			if !r.ok {
				t.Fatalf("%q unsupported", p)
			}
			if !res.IsConst() || res.IsTrue() != re.MatchString(string(b)) {
				t.Fatalf("pattern %q input %q: symbolic %v real %v", p, b, res, re.MatchString(string(b)))
			}
		}
	}
}
