package gosym

import (
	"fmt"
	"go/types"
	"math/rand"
	"os"
	"sort"
	"strings"
	"time"

	"golang.org/x/tools/go/ssa"
)

type endKind int

const (
	endOK endKind = iota
	endInfeasible
	endAbort
	endPanic
	endUnsupported
	endBudget
	endDeadlock
	endUnknown
	endFail
)

func (k endKind) String() string {
	return [...]string{"ok", "infeasible", "abort", "panic", "unsupported", "budget", "deadlock", "solver-unknown", "fail"}[k]
}

// pathEnd is thrown (as a Go panic) to terminate the current path.
type pathEnd struct {
	kind endKind
	msg  string
}

type decKind uint8

const (
	decBranch decKind = iota
	decConc
	decChoice
)

type Decision struct {
	Kind   decKind
	Val    uint64 // branch: 1 = cond true; conc: candidate value; choice: index
	Taken  bool   // conc: candidate accepted
	Forced bool   // branch: other side infeasible (no constraint added)
}

type workItem struct {
	// decisions to replay: prefix (shared with the path that forked this item, never written
	// again) followed by last
	prefix      []Decision
	last        *Decision
	model       *Model
	assertsDone int
}

type Options struct {
	Solver         string
	TimeoutMS      int
	MaxPaths       int
	MaxSteps       int // per path
	MaxSeconds     float64
	Preempt        int
	Concrete       bool // no solver: all branches must be constant
	Verbose        int
	Witnesses      int
	KnownFindings  map[string]bool // finding ids accepted as known
	ForcedModel    map[string]uint64
	ForcedSchedule []int
	CrossSolvers   []string
	GlobalYield    bool // reads and writes of package-level variables are scheduling points
	Seed           int
	DelayBound     bool
}

type Violation struct {
	Harness   string            `json:"harness"`
	Kind      string            `json:"kind"`
	Msg       string            `json:"msg"`
	Model     map[string]uint64 `json:"model"`
	Decisions []Decision        `json:"decisions"`
	Known     string            `json:"known,omitempty"`
	Where     string            `json:"where,omitempty"`
	Observed  map[string]string `json:"observed,omitempty"`
}

type Witness struct {
	Model    map[string]uint64 `json:"model"`
	Observed map[string]string `json:"observed"`
	End      string            `json:"end"`
}

type Stats struct {
	Paths                int            `json:"paths"`
	PathsByEnd           map[string]int `json:"paths_by_end"`
	Branches             int            `json:"symbolic_branch_decisions"`
	Forks                int            `json:"forks"`
	Asserts              int            `json:"assert_queries"`
	AssertsTrivial       int            `json:"asserts_constant_true"`
	AssertsUnsat         int            `json:"asserts_unsat"`
	AssertsSat           int            `json:"asserts_sat"`
	TwinViolated         int            `json:"twin_asserts_violated"`
	TwinHeld             int            `json:"twin_asserts_held"`
	Steps                int64          `json:"ssa_instructions"`
	MaxPathSteps         int            `json:"max_path_steps"`
	Queries              int            `json:"solver_queries"`
	SolverSeconds        float64        `json:"solver_seconds"`
	MaxQuerySec          float64        `json:"max_query_seconds"`
	Unknowns             int            `json:"solver_unknowns"`
	WallSeconds          float64        `json:"wall_seconds"`
	Inconclusive         []string       `json:"inconclusive,omitempty"`
	CrossChecked         int            `json:"cross_checked_queries"`
	CrossDisagree        int            `json:"cross_disagreements"`
	CrossUndecided       int            `json:"cross_undecided"`
	SolverRestarts       int            `json:"solver_restarts"`
	CrossSkipped         int            `json:"cross_not_sampled"`
	MaxTermSize          int            `json:"max_assert_term_nodes"`
	AssertsByModel       int            `json:"asserts_refuted_by_path_model"`
	UnsatByAbstraction   int            `json:"queries_unsat_under_uf_abstraction"`
	SatBySampling        int            `json:"queries_sat_by_sampled_model"`
	PortfolioCalls       int            `json:"portfolio_calls_after_primary_unknown"`
	PortfolioDecided     int            `json:"portfolio_decided"`
	AssertsByAbstraction int            `json:"asserts_unsat_under_uf_abstraction_of_div_mul"`
	StoppedEarly         bool           `json:"stopped_after_5_violations,omitempty"`
}

type Result struct {
	Harness    string          `json:"harness"`
	Stats      Stats           `json:"stats"`
	Violations []Violation     `json:"violations"`
	Known      []Violation     `json:"known_findings_hit"`
	Witnesses  []Witness       `json:"witnesses"`
	Functions  map[string]int  `json:"functions_encoded"`
	Intrinsics map[string]int  `json:"intrinsics_used"`
	Stubs      map[string]bool `json:"stubs_used"`
	Params     string          `json:"params,omitempty"`
	InitNotes  []string        `json:"init_notes,omitempty"`
	Opaque     int             `json:"opaque_format_bytes,omitempty"`
}

type Engine struct {
	prog    *ssa.Program
	opts    Options
	solver  *Solver
	globals map[*ssa.Global]*Obj
	epoch   int
	nextObj int
	journal []journalEntry

	// exploration
	work      []*workItem
	pc        []*Term
	model     *Model
	decs      []Decision
	dpos      int
	taken     []Decision
	assertIdx int
	assertsDn int
	steps     int
	vars      []*Term
	varByName map[string]*Term
	varCount  map[string]int
	observed  map[string]string
	allowAbt  []allowRec
	expectAbt bool
	twinMode  bool
	res       *Result
	harness   string
	startTime time.Time
	inconcl   map[string]bool

	// goroutines
	gs      []*G
	cur     *G
	nextG   int
	preempt int
	sched   []int
	condW   map[*Obj]map[int][]*G
	schedIx int

	stubs       map[string]*Closure
	fnUsed      map[*ssa.Function]int
	intrUsed    map[string]int
	stubUsed    map[string]bool
	initDone    map[*ssa.Package]bool
	nowCounter  int64
	params      map[string]int64
	logSink     []logRec
	pwTerms     [][]*Term
	extra       map[string]interface{}
	obsTerms    map[string][]*Term
	obsUnsigned map[string]map[int]bool
	secrets     []secretRec
	fnByName    map[string]*ssa.Function
	opaqueCount int
	InitNotes   []string
	metaCache   map[*ssa.Function]*fnMetaT
	pcVars      map[int]bool
	probeHits   int
	synUnsat    int
	regexps     map[*Obj]string
	crossSeen   int
	initSkipped []string
	rng         *rand.Rand
}

type allowRec struct {
	id   string
	cond *Term
}

type logRec struct {
	fn   string
	args []Value
}

func NewEngine(prog *ssa.Program, opts Options) *Engine {
	if opts.MaxPaths == 0 {
		opts.MaxPaths = 20000
	}
	if opts.MaxSteps == 0 {
		opts.MaxSteps = 5_000_000
	}
	if opts.TimeoutMS == 0 {
		opts.TimeoutMS = 10000
	}
	if opts.Solver == "" {
		opts.Solver = "z3"
	}
	e := &Engine{prog: prog, opts: opts, globals: map[*ssa.Global]*Obj{}, stubs: map[string]*Closure{},
		fnUsed: map[*ssa.Function]int{}, intrUsed: map[string]int{}, stubUsed: map[string]bool{}, initDone: map[*ssa.Package]bool{},
		params: map[string]int64{}}
	return e
}

func (e *Engine) SetParam(k string, v int64) { e.params[k] = v }
func (e *Engine) ClearParams()               { e.params = map[string]int64{} }

// SetOptions replaces the options (defaults applied) between runs.
func (e *Engine) SetOptions(opts Options) {
	if opts.MaxPaths == 0 {
		opts.MaxPaths = 20000
	}
	if opts.MaxSteps == 0 {
		opts.MaxSteps = 5_000_000
	}
	if opts.TimeoutMS == 0 {
		opts.TimeoutMS = 10000
	}
	if opts.Solver == "" {
		opts.Solver = "z3-new"
	}
	e.opts = opts
}

func (e *Engine) addPC(c *Term) {
	if c.IsTrue() {
		return
	}
	e.pc = append(e.pc, c)
	for _, v := range varsOf(c) {
		e.pcVars[v.id] = true
	}
}

var varsCache = map[int][]*Term{}

// varsOf returns the variables of t (cached per term).
func varsOf(t *Term) []*Term {
	if t.Op == OpConst {
		return nil
	}
	if vs, ok := varsCache[t.id]; ok {
		return vs
	}
	m := map[int]*Term{}
	t.Vars(m)
	vs := make([]*Term, 0, len(m))
	for _, v := range m {
		vs = append(vs, v)
	}
	sort.Slice(vs, func(i, j int) bool { return vs[i].id < vs[j].id })
	varsCache[t.id] = vs
	return vs
}

var probeValues = []uint64{1, 2, 3, 0xff, 0x80, 0x7f, 0x41, 0x30, 0x0a, 0xffffffffffffffff}

// probe tries to satisfy c by changing only variables that do not occur in the
// path condition (any value of those keeps the path condition satisfied).
func (e *Engine) probe(c *Term) *Model {
	vs := varsOf(c)
	var free []*Term
	for _, v := range vs {
		if !e.pcVars[v.id] {
			free = append(free, v)
		}
	}
	if len(free) == 0 || len(free) > 6 {
		return nil
	}
	for _, v := range free {
		for _, pv := range probeValues {
			m := e.model.Clone()
			m.Set(v, pv)
			if x, ok := m.Eval(c); ok && x == 1 {
				e.probeHits++
				return m
			}
		}
	}
	return nil
}

func (e *Engine) markInconclusive(msg string) {
	if e.inconcl == nil {
		e.inconcl = map[string]bool{}
	}
	if !e.inconcl[msg] {
		e.inconcl[msg] = true
		if e.res != nil {
			e.res.Stats.Inconclusive = append(e.res.Stats.Inconclusive, msg)
		}
	}
}

func (e *Engine) pcOrTermHard(t *Term) bool {
	seen := map[int]bool{}
	if hasHard(t, seen) {
		return true
	}
	for _, c := range e.pc {
		if hasHard(c, seen) {
			return true
		}
	}
	return false
}

// checkQuiet is check without inconclusive bookkeeping (used for the
// abstraction pre-pass whose failure is followed by the precise query).
func (e *Engine) checkQuiet(extra *Term) (SatResult, *Model) {
	if e.solver == nil || e.solver.dead {
		return Unknown, nil
	}
	r, _, err := e.solver.Check(e.pc, extra, nil)
	if err != nil {
		return Unknown, nil
	}
	return r, nil
}

func (e *Engine) check(extra *Term) (SatResult, *Model) {
	if e.opts.Concrete || e.solver == nil {
		panic(pathEnd{kind: endUnsupported, msg: "symbolic condition in concrete mode: " + extra.String()})
	}
	if extra != nil {
		// syntactic contradiction with the path condition
		neg := Not(extra)
		for _, c := range e.pc {
			if c == neg {
				e.synUnsat++
				return Unsat, nil
			}
		}
	}
	hard := extra != nil && e.pcOrTermHard(extra)
	if hard {
		// division / multiplication by symbolic operands: try the sound shortcuts
		// before the bit-blasting back end: unsat under the UF abstraction, or a
		// sampled concrete model
		save := e.pc
		apc := make([]*Term, len(save))
		for i, c := range save {
			apc[i] = abstractHard(c)
		}
		e.pc = apc
		ra, _ := e.checkQuiet(abstractHard(extra))
		e.pc = save
		if ra == Unsat {
			e.res.Stats.UnsatByAbstraction++
			return Unsat, nil
		}
		if m := e.sample(extra, 4000); m != nil {
			e.res.Stats.SatBySampling++
			return Sat, m
		}
	}
	if e.solver.dead {
		e.solver.Close()
		ns, err := NewSolver(e.opts.Solver, e.opts.TimeoutMS)
		if err != nil {
			e.markInconclusive("cannot restart solver: " + err.Error())
			return Unknown, nil
		}
		ns.Queries, ns.Seconds, ns.NUnknown, ns.MaxQuery = e.solver.Queries, e.solver.Seconds, e.solver.NUnknown, e.solver.MaxQuery
		e.solver = ns
	}
	r, mv, err := e.solver.Check(e.pc, extra, e.vars)
	if err != nil {
		// the back end died or lost sync (a killed process, memory pressure): one fresh process and the
		// same query again; if that fails too the one-shot portfolio below gets the query
		first := err
		e.solver.Close()
		if ns, nerr := NewSolver(e.opts.Solver, e.opts.TimeoutMS); nerr == nil {
			ns.Queries, ns.Seconds, ns.NUnknown, ns.MaxQuery = e.solver.Queries, e.solver.Seconds, e.solver.NUnknown, e.solver.MaxQuery
			e.solver = ns
			e.res.Stats.SolverRestarts++
			r, mv, err = e.solver.Check(e.pc, extra, e.vars)
		}
		if err != nil {
			if os.Getenv("VF_DEBUG") != "" {
				fmt.Fprintf(os.Stderr, "[%s] solver error twice: %v / %v\n", e.harness, first, err)
			}
			r, mv = Unknown, nil
		}
	}
	if r == Unknown {
		// secondary back ends (one-shot): z3 4.8.12, cvc5 bv-as-int, cvc5
		t0 := time.Now()
		pr, pm, who := Portfolio(e.pc, extra, e.vars, e.opts.TimeoutMS/1000+1)
		if os.Getenv("VF_DEBUG") != "" {
			fmt.Fprintf(os.Stderr, "[%s] primary unknown on %s ; portfolio: %s by %s in %.1fs\n", e.harness, extra.String(), pr, who, time.Since(t0).Seconds())
		}
		e.res.Stats.PortfolioCalls++
		if pr == Unknown {
			e.markInconclusive("solver unknown/timeout")
			return Unknown, nil
		}
		e.res.Stats.PortfolioDecided++
		_ = who
		r, mv = pr, pm
	}
	if r == Sat {
		m := NewModel()
		for k, v := range mv {
			m.vals[k] = v
		}
		return Sat, m
	}
	return r, nil
}

// branch decides a condition; both feasible sides are explored (the other one
// is queued).
func (e *Engine) branch(c *Term) bool {
	if c.Op == OpConst {
		return c.V == 1
	}
	if e.dpos < len(e.decs) {
		d := e.decs[e.dpos]
		e.dpos++
		if d.Kind != decBranch {
			panic(fmt.Sprintf("internal: decision replay mismatch (want branch, have %d) at %d", d.Kind, e.dpos-1))
		}
		e.taken = append(e.taken, d)
		take := d.Val == 1
		if !d.Forced {
			if take {
				e.addPC(c)
			} else {
				e.addPC(Not(c))
			}
		}
		return take
	}
	e.res.Stats.Branches++
	mv, ok := e.model.Eval(c)
	var side bool
	if ok {
		side = mv == 1
	} else {
		// cannot evaluate (uninterpreted function): ask the solver for the true side
		r, m := e.check(c)
		switch r {
		case Sat:
			side = true
			e.model = m
		case Unsat:
			side = false
			r2, m2 := e.check(Not(c))
			if r2 != Sat {
				panic(pathEnd{kind: endInfeasible, msg: "both sides infeasible"})
			}
			e.model = m2
			e.taken = append(e.taken, Decision{Kind: decBranch, Val: 0, Forced: true})
			return false
		default:
			panic(pathEnd{kind: endUnknown, msg: "solver unknown on branch"})
		}
	}
	other := c
	if side {
		other = Not(c)
	}
	var r SatResult
	var m *Model
	if pm := e.probe(other); pm != nil {
		r, m = Sat, pm
	} else {
		r, m = e.check(other)
	}
	d := Decision{Kind: decBranch, Val: b2u(side)}
	switch r {
	case Sat:
		e.work = append(e.work, &workItem{prefix: e.taken[:len(e.taken):len(e.taken)], last: &Decision{Kind: decBranch, Val: b2u(!side)}, model: m, assertsDone: e.assertIdx})
		e.res.Stats.Forks++
	case Unsat:
		d.Forced = true
	case Unknown:
		// the other side is not explored: recorded as inconclusive
	}
	e.taken = append(e.taken, d)
	if !d.Forced {
		if side {
			e.addPC(c)
		} else {
			e.addPC(Not(c))
		}
	}
	return side
}

// concretize forks over all feasible values of t.
func (e *Engine) concretize(t *Term) uint64 {
	if t.Op == OpConst {
		return t.V
	}
	for n := 0; ; n++ {
		if n > 70000 {
			panic(pathEnd{kind: endBudget, msg: "concretization fan-out"})
		}
		if e.dpos < len(e.decs) {
			d := e.decs[e.dpos]
			e.dpos++
			if d.Kind != decConc {
				panic("internal: decision replay mismatch (want conc)")
			}
			e.taken = append(e.taken, d)
			c := Eq(t, BV(t.W, d.Val))
			if d.Taken {
				if !d.Forced {
					e.addPC(c)
				}
				return d.Val
			}
			e.addPC(Not(c))
			continue
		}
		v, ok := e.model.Eval(t)
		if !ok {
			r, m := e.check(True)
			if r != Sat {
				panic(pathEnd{kind: endUnknown, msg: "cannot get model for concretization"})
			}
			e.model = m
			v, ok = m.Eval(t)
			if !ok {
				panic(pathEnd{kind: endUnsupported, msg: "concretize term with uninterpreted function"})
			}
		}
		c := Eq(t, BV(t.W, v))
		e.res.Stats.Branches++
		r, m := e.check(Not(c))
		d := Decision{Kind: decConc, Val: v, Taken: true}
		switch r {
		case Sat:
			e.work = append(e.work, &workItem{prefix: e.taken[:len(e.taken):len(e.taken)], last: &Decision{Kind: decConc, Val: v, Taken: false}, model: m, assertsDone: e.assertIdx})
			e.res.Stats.Forks++
		case Unsat:
			d.Forced = true
		}
		e.taken = append(e.taken, d)
		if !d.Forced {
			e.addPC(c)
		}
		return v
	}
}

// choose forks over n alternatives that need no solver (scheduler, select).
func (e *Engine) choose(n int) int {
	if n <= 1 {
		return 0
	}
	if e.dpos < len(e.decs) {
		d := e.decs[e.dpos]
		e.dpos++
		if d.Kind != decChoice {
			panic("internal: decision replay mismatch (want choice)")
		}
		e.taken = append(e.taken, d)
		return int(d.Val)
	}
	if e.opts.ForcedSchedule != nil {
		v := 0
		if e.schedIx < len(e.opts.ForcedSchedule) {
			v = e.opts.ForcedSchedule[e.schedIx]
		}
		e.schedIx++
		e.taken = append(e.taken, Decision{Kind: decChoice, Val: uint64(v)})
		return v
	}
	for i := n - 1; i >= 1; i-- {
		e.work = append(e.work, &workItem{prefix: e.taken[:len(e.taken):len(e.taken)], last: &Decision{Kind: decChoice, Val: uint64(i)}, model: e.model, assertsDone: e.assertIdx})
		e.res.Stats.Forks++
	}
	e.taken = append(e.taken, Decision{Kind: decChoice, Val: 0})
	return 0
}

func (e *Engine) assume(c *Term) {
	if c.Op == OpConst {
		if c.V == 0 {
			panic(pathEnd{kind: endInfeasible})
		}
		return
	}
	mv, ok := e.model.Eval(c)
	if ok && mv == 1 {
		e.addPC(c)
		return
	}
	if pm := e.probe(c); pm != nil {
		e.model = pm
		e.addPC(c)
		return
	}
	r, m := e.check(c)
	switch r {
	case Sat:
		e.model = m
		e.addPC(c)
	case Unsat:
		panic(pathEnd{kind: endInfeasible})
	default:
		panic(pathEnd{kind: endUnknown, msg: "solver unknown on assume"})
	}
}

func sanitize(s string) string {
	var sb strings.Builder
	for _, r := range s {
		if r >= 'a' && r <= 'z' || r >= 'A' && r <= 'Z' || r >= '0' && r <= '9' || r == '_' || r == '.' {
			sb.WriteRune(r)
		} else {
			sb.WriteByte('_')
		}
	}
	return sb.String()
}

// fresh creates (or re-creates, deterministically) the k-th variable of a tag.
func (e *Engine) fresh(tag string, w int) *Term {
	tag = sanitize(tag)
	k := e.varCount[tag]
	e.varCount[tag] = k + 1
	name := fmt.Sprintf("v_%s_%d", tag, k)
	if k == 0 {
		name = "v_" + tag
	}
	if fm := e.opts.ForcedModel; fm != nil {
		return BV(w, fm[name])
	}
	if old, ok := e.varByName[name]; ok && old.W != w {
		panic(pathEnd{kind: endUnsupported, msg: fmt.Sprintf("vf tag %q is used with two different widths (%d and %d bits) on different paths; use distinct tags", tag, old.W, w)})
	}
	v := Var(name, w)
	if _, ok := e.varByName[name]; !ok {
		e.varByName[name] = v
		e.vars = append(e.vars, v)
	}
	return v
}

func (e *Engine) modelMap(m *Model) map[string]uint64 {
	r := map[string]uint64{}
	for _, v := range e.vars {
		r[v.Name] = m.vals[v.id]
	}
	return r
}

func (e *Engine) observedUnder(m *Model) map[string]string {
	return e.observed
}

// assert checks c on the current path.
func (e *Engine) assert(c *Term, msg string, knownID string, guard *Term) {
	idx := e.assertIdx
	e.assertIdx++
	if idx < e.assertsDn {
		// already checked when the prefix was first explored
		e.assumeQuiet(c)
		return
	}
	if c.IsTrue() {
		e.res.Stats.AssertsTrivial++
		return
	}
	if c.IsFalse() && knownID != "" && guard != nil && guard.IsTrue() && e.opts.KnownFindings[knownID] {
		e.res.Stats.Asserts++
		e.res.Stats.AssertsSat++
		e.res.Known = append(e.res.Known, Violation{Harness: e.harness, Kind: "assert", Msg: msg, Model: e.modelMap(e.model), Known: knownID, Observed: e.snapshotObserved(e.model)})
		panic(pathEnd{kind: endInfeasible})
	}
	if c.IsFalse() {
		e.res.Stats.Asserts++
		e.res.Stats.AssertsSat++
		e.res.Violations = append(e.res.Violations, Violation{Harness: e.harness, Kind: "assert", Msg: msg, Model: e.modelMap(e.model), Decisions: append([]Decision(nil), e.taken...), Observed: e.snapshotObserved(e.model)})
		panic(pathEnd{kind: endInfeasible})
	}
	e.res.Stats.Asserts++
	if sz := c.Size(); sz > e.res.Stats.MaxTermSize {
		e.res.Stats.MaxTermSize = sz
	}
	neg := Not(c)
	var r SatResult
	var m *Model
	// the path's witness model satisfies the path condition: if it already
	// falsifies the assertion it is a counterexample and no query is needed
	if mv, ok := e.model.Eval(c); ok && mv == 0 && e.solver != nil {
		r, m = Sat, e.model
		e.res.Stats.AssertsByModel++
	} else {
		t0 := time.Now()
		tried := false
		if e.solver != nil && e.pcOrTermHard(neg) {
			// first under the uninterpreted abstraction of division/multiplication
			save := e.pc
			apc := make([]*Term, len(save))
			for i, c := range save {
				apc[i] = abstractHard(c)
			}
			e.pc = apc
			ra, _ := e.checkQuiet(abstractHard(neg))
			e.pc = save
			if ra == Unsat {
				r, tried = Unsat, true
				e.res.Stats.AssertsByAbstraction++
			}
		}
		if !tried {
			r, m = e.check(neg)
		}
		if e.opts.Verbose > 0 || r == Unknown {
			fmt.Fprintf(os.Stderr, "[%s] assert %q: %s in %.2fs (pc=%d, nodes=%d)\n", e.harness, msg, r, time.Since(t0).Seconds(), len(e.pc), c.Size())
		}
	}
	if len(e.opts.CrossSolvers) > 0 && r != Unknown && m != e.model {
		e.crossCheck(neg, r)
	}
	switch r {
	case Unsat:
		e.res.Stats.AssertsUnsat++
		return
	case Unknown:
		e.assumeQuiet(c)
		return
	}
	e.res.Stats.AssertsSat++
	if e.twinMode {
		return
	}
	v := Violation{Harness: e.harness, Kind: "assert", Msg: msg, Model: e.modelMap(m), Decisions: append([]Decision(nil), e.taken...), Observed: e.snapshotObserved(m)}
	if knownID != "" && guard != nil && e.opts.KnownFindings[knownID] {
		// is there a violation outside the guard?
		r2, m2 := e.check(And(neg, Not(guard)))
		switch r2 {
		case Sat:
			v.Model = e.modelMap(m2)
			v.Observed = e.snapshotObserved(m2)
			e.res.Violations = append(e.res.Violations, v)
		case Unsat:
			v.Known = knownID
			e.res.Known = append(e.res.Known, v)
		default:
			e.markInconclusive("solver unknown on known-finding guard")
		}
	} else {
		e.res.Violations = append(e.res.Violations, v)
	}
	e.assumeQuiet(c)
}

func (e *Engine) crossCheck(q *Term, want SatResult) {
	// every assertion query of a run up to the 100th, every 20th after that (a one-shot process of
	// the older solver costs about a second per query on these formulas)
	e.crossSeen++
	if e.crossSeen > 100 && e.crossSeen%20 != 0 {
		e.res.Stats.CrossSkipped++
		return
	}
	script := Script(e.pc, q)
	for _, k := range e.opts.CrossSolvers {
		// a second opinion, not a second budget: 5 s per query; an undecided cross-check is
		// counted separately and proves nothing either way
		r, _, err := OneShot(k, script, 5)
		if err != nil || r == Unknown {
			e.res.Stats.CrossUndecided++
			continue
		}
		e.res.Stats.CrossChecked++
		if r != want {
			e.res.Stats.CrossDisagree++
			e.markInconclusive(fmt.Sprintf("solver disagreement: %s=%s %s=%s", e.solver.Kind, want, k, r))
		}
	}
}

func (e *Engine) assumeQuiet(c *Term) {
	if c.Op == OpConst {
		if c.V == 0 {
			panic(pathEnd{kind: endInfeasible})
		}
		return
	}
	e.assume(c)
}

func (e *Engine) snapshotObserved(m *Model) map[string]string {
	r := map[string]string{}
	for k, v := range e.observed {
		r[k] = v
	}
	for k, ts := range e.obsTerms {
		var sb strings.Builder
		for i, t := range ts {
			if i > 0 {
				sb.WriteString(" ")
			}
			x, ok := m.Eval(t)
			if !ok {
				sb.WriteString("?")
			} else if t.W == 8 {
				fmt.Fprintf(&sb, "%02x", x)
			} else if t.W == 1 {
				fmt.Fprintf(&sb, "%d", x)
			} else if e.obsUnsigned[k][i] {
				fmt.Fprintf(&sb, "%d", x)
			} else {
				fmt.Fprintf(&sb, "%d", signExt(x, t.W))
			}
		}
		r[k] = sb.String()
	}
	return r
}

// ---------------------------------------------------------------------------

// Run explores all paths of the harness function.
func (e *Engine) Run(fn *ssa.Function, harness string) *Result {
	res := &Result{Harness: harness, Functions: map[string]int{}, Intrinsics: map[string]int{}, Stubs: map[string]bool{}}
	res.Stats.PathsByEnd = map[string]int{}
	e.res = res
	e.harness = harness
	e.startTime = time.Now()
	e.crossSeen = 0
	if !e.opts.Concrete && e.opts.ForcedModel == nil {
		s, err := NewSolver(e.opts.Solver, e.opts.TimeoutMS)
		if err != nil {
			res.Stats.Inconclusive = append(res.Stats.Inconclusive, "cannot start solver: "+err.Error())
			return res
		}
		e.solver = s
		defer s.Close()
	}
	e.varByName = map[string]*Term{}
	e.vars = nil
	e.inconcl = nil
	e.fnUsed = map[*ssa.Function]int{}
	e.intrUsed = map[string]int{}
	e.stubUsed = map[string]bool{}
	e.opaqueCount = 0
	e.work = []*workItem{{model: NewModel()}}
	for len(e.work) > 0 {
		if res.Stats.Paths >= e.opts.MaxPaths {
			e.markInconclusive(fmt.Sprintf("path budget %d exhausted", e.opts.MaxPaths))
			break
		}
		if e.opts.MaxSeconds > 0 && time.Since(e.startTime).Seconds() > e.opts.MaxSeconds {
			e.markInconclusive(fmt.Sprintf("time budget %.0fs exhausted", e.opts.MaxSeconds))
			break
		}
		if len(res.Violations) >= 5 {
			res.Stats.StoppedEarly = true
			break
		}
		it := e.work[len(e.work)-1]
		e.work = e.work[:len(e.work)-1]
		end := e.runPath(fn, it)
		res.Stats.Paths++
		res.Stats.PathsByEnd[end.kind.String()]++
		if e.opts.Verbose > 0 {
			fmt.Fprintf(os.Stderr, "[%s] path %d end=%s %s steps=%d pc=%d work=%d\n", harness, res.Stats.Paths, end.kind, end.msg, e.steps, len(e.pc), len(e.work))
		}
		e.handleEnd(end)
		e.undoJournal()
	}
	if e.solver != nil {
		res.Stats.Queries = e.solver.Queries
		res.Stats.SolverSeconds = e.solver.Seconds
		res.Stats.MaxQuerySec = e.solver.MaxQuery
		res.Stats.Unknowns = e.solver.NUnknown
	}
	res.Stats.WallSeconds = time.Since(e.startTime).Seconds()
	for f, n := range e.fnUsed {
		res.Functions[f.String()] = n
	}
	for k, v := range e.intrUsed {
		res.Intrinsics[k] = v
	}
	for k := range e.stubUsed {
		res.Stubs[k] = true
	}
	sort.Strings(res.Stats.Inconclusive)
	res.Opaque = e.opaqueCount
	return res
}

func (e *Engine) handleEnd(end pathEnd) {
	res := e.res
	switch end.kind {
	case endOK, endInfeasible:
		if end.kind == endOK && len(res.Witnesses) < e.opts.Witnesses {
			res.Witnesses = append(res.Witnesses, Witness{Model: e.modelMap(e.model), Observed: e.snapshotObserved(e.model), End: "ok"})
		}
	case endAbort, endPanic, endDeadlock, endFail:
		if e.expectAbt && end.kind == endAbort {
			if len(res.Witnesses) < e.opts.Witnesses {
				res.Witnesses = append(res.Witnesses, Witness{Model: e.modelMap(e.model), Observed: e.snapshotObserved(e.model), End: "expected-abort"})
			}
			return
		}
		if e.twinMode {
			return
		}
		v := Violation{Harness: e.harness, Kind: end.kind.String(), Msg: end.msg, Model: e.modelMap(e.model), Decisions: append([]Decision(nil), e.taken...), Observed: e.snapshotObserved(e.model)}
		// known-finding guards registered on this path
		if len(e.allowAbt) > 0 && !e.opts.Concrete {
			g := False
			for _, a := range e.allowAbt {
				if e.opts.KnownFindings[a.id] {
					g = Or(g, a.cond)
				}
			}
			r, m := e.check(Not(g))
			switch r {
			case Sat:
				v.Model = e.modelMap(m)
				v.Observed = e.snapshotObserved(m)
				res.Violations = append(res.Violations, v)
			case Unsat:
				for _, a := range e.allowAbt {
					if x, ok := e.model.Eval(a.cond); ok && x == 1 && e.opts.KnownFindings[a.id] {
						v.Known = a.id
						break
					}
				}
				if v.Known == "" {
					v.Known = e.allowAbt[0].id
				}
				res.Known = append(res.Known, v)
			default:
				e.markInconclusive("solver unknown on abort guard")
			}
			return
		}
		res.Violations = append(res.Violations, v)
	case endUnsupported:
		e.markInconclusive("unsupported: " + end.msg)
	case endBudget:
		e.markInconclusive("budget: " + end.msg)
	case endUnknown:
		e.markInconclusive("solver-unknown: " + end.msg)
	}
}

func (e *Engine) runPath(fn *ssa.Function, it *workItem) (end pathEnd) {
	e.epoch++
	e.pc = e.pc[:0]
	e.pcVars = map[int]bool{}
	e.model = it.model
	e.decs = append([]Decision(nil), it.prefix...)
	if it.last != nil {
		e.decs = append(e.decs, *it.last)
	}
	e.dpos = 0
	e.taken = nil // a fresh array per path: forked items keep read-only views of the old one
	e.assertIdx = 0
	e.assertsDn = it.assertsDone
	e.steps = 0
	e.varCount = map[string]int{}
	e.observed = map[string]string{}
	e.obsTerms = map[string][]*Term{}
	e.obsUnsigned = map[string]map[int]bool{}
	e.allowAbt = nil
	e.expectAbt = false
	e.twinMode = false
	e.gs = nil
	e.nextG = 0
	e.preempt = 0
	e.condW = nil
	e.schedIx = 0
	e.nowCounter = 0
	e.logSink = nil
	e.pwTerms = nil
	e.secrets = nil
	e.stubs = map[string]*Closure{}
	e.extra = map[string]interface{}{}
	defer func() {
		e.res.Stats.Steps += int64(e.steps)
		if e.steps > e.res.Stats.MaxPathSteps {
			e.res.Stats.MaxPathSteps = e.steps
		}
		if r := recover(); r != nil {
			if pe, ok := r.(pathEnd); ok {
				end = pe
				return
			}
			panic(r)
		}
	}()
	g := e.newG()
	e.pushFrame(g, fn, nil, nil)
	e.schedule()
	return pathEnd{kind: endOK}
}

// ---------------------------------------------------------------------------

func typeString(t types.Type) string { return types.TypeString(t, nil) }

// sample looks for a concrete model of pc ∧ extra by evaluating random
// assignments (small values, boundary values, random bits). A hit is a proof of
// satisfiability; a miss proves nothing.
func (e *Engine) sample(extra *Term, tries int) *Model {
	vm := map[int]*Term{}
	for _, c := range e.pc {
		for _, v := range varsOf(c) {
			vm[v.id] = v
		}
	}
	for _, v := range varsOf(extra) {
		vm[v.id] = v
	}
	if len(vm) == 0 || len(vm) > 24 {
		return nil
	}
	vs := make([]*Term, 0, len(vm))
	for _, v := range vm {
		vs = append(vs, v)
	}
	sort.Slice(vs, func(i, j int) bool { return vs[i].id < vs[j].id })
	rng := e.rng
	if rng == nil {
		rng = rand.New(rand.NewSource(int64(e.opts.Seed) + 12345))
		e.rng = rng
	}
	for k := 0; k < tries; k++ {
		m := e.model.Clone()
		for _, v := range vs {
			var x uint64
			switch rng.Intn(10) {
			case 0, 1, 2, 3:
				x = uint64(rng.Intn(9))
			case 4, 5:
				x = uint64(rng.Intn(70))
			case 6:
				x = uint64(rng.Intn(5000))
			case 7:
				x = uint64(1) << uint(rng.Intn(63))
			case 8:
				x = (uint64(1) << uint(rng.Intn(63))) - uint64(rng.Intn(3))
			default:
				x = rng.Uint64()
			}
			m.vals[v.id] = x & mask(v.W)
		}
		ok := true
		for _, c := range e.pc {
			if x, good := m.Eval(c); !good || x != 1 {
				ok = false
				break
			}
		}
		if !ok {
			continue
		}
		if x, good := m.Eval(extra); good && x == 1 {
			return m
		}
	}
	return nil
}
