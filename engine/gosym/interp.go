package gosym

import (
	"fmt"
	"go/constant"
	"go/token"
	"go/types"
	"math"
	"os"
	"runtime"
	"strings"
	"unicode/utf8"

	"golang.org/x/tools/go/ssa"
)

type deferRec struct {
	callee *Closure
	args   []Value
}

type Frame struct {
	fn      *ssa.Function
	env     map[ssa.Value]Value
	block   *ssa.BasicBlock
	prev    *ssa.BasicBlock
	pc      int
	defers  []deferRec
	retTo   ssa.Value // instruction in caller receiving the result
	caller  *Frame
	mode    int    // modeNormal / modeRunDefers / modeUnwind
	owner   *Frame // frame that made the call (receives the result)
	unwind  bool   // frame is being unwound by a panic
	onRet   func(res Value)
	results Value
}

const (
	modeNormal = iota
	modeRunDefers
	modeUnwind
)

type gStatus int

const (
	gRunnable gStatus = iota
	gBlocked
	gDone
)

type panicState struct {
	val       Value
	recovered bool
	msg       string
}

type G struct {
	id           int
	stack        []*Frame
	status       gStatus
	ready        func() bool
	resume       func()
	panicking    *panicState
	schedChecked bool
	parkOK       bool // blocked at an allowed parking point
	idleWaiter   bool
	waitDesc     string
}

func (e *Engine) newG() *G {
	g := &G{id: e.nextG}
	e.nextG++
	e.gs = append(e.gs, g)
	return g
}

func (g *G) top() *Frame {
	if len(g.stack) == 0 {
		return nil
	}
	return g.stack[len(g.stack)-1]
}

func (e *Engine) pushFrame(g *G, fn *ssa.Function, args []Value, free []Value) *Frame {
	if fn.Blocks == nil {
		panic(pathEnd{kind: endUnsupported, msg: "call of external function " + fn.String()})
	}
	if len(g.stack) > 400 {
		panic(pathEnd{kind: endBudget, msg: "call depth > 400 at " + fn.String()})
	}
	e.fnUsed[fn]++
	fr := &Frame{fn: fn, env: make(map[ssa.Value]Value, 16), block: fn.Blocks[0]}
	for i, p := range fn.Params {
		fr.env[p] = args[i]
	}
	for i, fv := range fn.FreeVars {
		fr.env[fv] = free[i]
	}
	if c := g.top(); c != nil {
		fr.caller = c
	}
	g.stack = append(g.stack, fr)
	return fr
}

// ---------------------------------------------------------------------------
// scheduler

func (e *Engine) runnable() []*G {
	var rs []*G
	for _, g := range e.gs {
		switch g.status {
		case gRunnable:
			rs = append(rs, g)
		case gBlocked:
			if g.ready != nil && g.ready() {
				rs = append(rs, g)
			}
		}
	}
	return rs
}

// schedule runs goroutines until the main goroutine (id 0) finishes.
func (e *Engine) schedule() {
	for {
		main := e.gs[0]
		if main.status == gDone {
			return
		}
		rs := e.runnable()
		if len(rs) == 0 {
			desc := ""
			for _, g := range e.gs {
				if g.status == gBlocked {
					desc += fmt.Sprintf(" g%d:%s", g.id, g.waitDesc)
				}
			}
			panic(pathEnd{kind: endDeadlock, msg: "all goroutines blocked:" + desc})
		}
		var g *G
		if len(rs) == 1 {
			g = rs[0]
		} else {
			// prefer to continue the current goroutine unless preemption budget allows a switch
			curIdx := -1
			for i, r := range rs {
				if r == e.cur {
					curIdx = i
				}
			}
			if curIdx >= 0 {
				if e.preempt >= e.opts.Preempt {
					g = rs[curIdx]
				} else {
					// order: current first
					rs[0], rs[curIdx] = rs[curIdx], rs[0]
					k := e.choose(len(rs))
					g = rs[k]
					if k != 0 {
						e.preempt++
					}
				}
			} else if e.opts.DelayBound {
				// delay-bounded scheduling: the default successor is the next goroutine in
				// round-robin order; every deviation costs one unit of the budget
				start := 0
				if e.cur != nil {
					for i, r := range rs {
						if r.id > e.cur.id {
							start = i
							break
						}
					}
				}
				rot := append(append([]*G{}, rs[start:]...), rs[:start]...)
				if e.preempt >= e.opts.Preempt {
					g = rot[0]
				} else {
					k := e.choose(len(rot))
					g = rot[k]
					if k != 0 {
						e.preempt++
					}
				}
			} else {
				k := e.choose(len(rs))
				g = rs[k]
			}
		}
		e.sched = append(e.sched, g.id)
		e.cur = g
		if g.status == gBlocked {
			g.status = gRunnable
			r := g.resume
			g.ready, g.resume = nil, nil
			if r != nil {
				r()
			}
		}
		e.runG(g)
	}
}

// yield marks a scheduling point: returns true if the goroutine must stop
// running now (another goroutine was chosen).
func (e *Engine) schedPoint(g *G) bool {
	if g.schedChecked {
		g.schedChecked = false
		return false
	}
	if len(e.gs) == 1 {
		return false
	}
	others := false
	for _, o := range e.gs {
		if o != g && (o.status == gRunnable || (o.status == gBlocked && o.ready != nil && o.ready())) {
			others = true
			break
		}
	}
	if !others || e.preempt >= e.opts.Preempt {
		return false
	}
	g.schedChecked = true
	return true
}

// yieldAfter reports whether the scheduler should be consulted after an
// operation that may have enabled another goroutine (unlock, signal, done).
func (e *Engine) yieldAfter(g *G) bool {
	if len(e.gs) == 1 || e.preempt >= e.opts.Preempt {
		return false
	}
	for _, o := range e.gs {
		if o != g && (o.status == gRunnable || (o.status == gBlocked && o.ready != nil && o.ready())) {
			return true
		}
	}
	return false
}

func (e *Engine) block(g *G, desc string, ready func() bool, resume func()) {
	g.status = gBlocked
	g.ready = ready
	g.resume = resume
	g.waitDesc = desc
}

// runG executes g until it blocks, ends, or yields at a scheduling point.
func (e *Engine) runG(g *G) {
	for g.status == gRunnable {
		if e.runSteps(g) {
			return
		}
	}
}

// runSteps steps g until it yields/blocks (true) or a Go panic was raised and
// unwinding started (false: caller loops again).
func (e *Engine) runSteps(g *G) (yield bool) {
	defer func() {
		if r := recover(); r != nil {
			fr := g.top()
			var instr ssa.Instruction
			if fr != nil && fr.pc < len(fr.block.Instrs) {
				instr = fr.block.Instrs[fr.pc]
			}
			if ps, ok := r.(goPanicSignal); ok {
				where := ""
				if instr != nil {
					where = " at " + e.prog.Fset.Position(instr.Pos()).String() + " in " + fr.fn.String()
				}
				e.startPanic(g, ps.val, ps.msg+where)
				yield = false
				return
			}
			if pe, ok := r.(pathEnd); ok {
				if pe.kind == endUnsupported && instr != nil && !strings.Contains(pe.msg, " at /") {
					pe.msg += " at " + e.prog.Fset.Position(instr.Pos()).String() + " in " + fr.fn.String()
				}
				panic(pe)
			}
			if os.Getenv("VF_CRASH") != "" || instr == nil {
				panic(r)
			}
			panic(pathEnd{kind: endUnsupported, msg: fmt.Sprintf("internal error: %v at %s in %s: %v", r, e.prog.Fset.Position(instr.Pos()), fr.fn, instr)})
		}
	}()
	for g.status == gRunnable {
		fr := g.top()
		if fr == nil {
			g.status = gDone
			return true
		}
		if e.step(g, fr) {
			return true
		}
	}
	return true
}

// ---------------------------------------------------------------------------

func (e *Engine) constValue(c *ssa.Const) Value {
	t := c.Type()
	if c.Value == nil {
		return zeroValue(t)
	}
	switch u := t.Underlying().(type) {
	case *types.Basic:
		switch {
		case u.Info()&types.IsBoolean != 0:
			return Bool(constant.BoolVal(c.Value))
		case u.Info()&types.IsString != 0:
			return Str{s: constant.StringVal(c.Value)}
		case u.Info()&types.IsInteger != 0:
			w := bitWidth(t)
			if isSigned(t) {
				return BV(w, uint64(c.Int64()))
			}
			return BV(w, c.Uint64())
		case u.Info()&types.IsFloat != 0:
			f := c.Float64()
			if bitWidth(t) == 32 {
				return BV(32, uint64(math.Float32bits(float32(f))))
			}
			return BV(64, math.Float64bits(f))
		}
	case *types.Interface:
		// constant converted to interface? not produced by ssa
	}
	panic(pathEnd{kind: endUnsupported, msg: "constant of type " + t.String()})
}

func (e *Engine) globalObj(gl *ssa.Global) *Obj {
	if o, ok := e.globals[gl]; ok {
		return o
	}
	pt := gl.Type().(*types.Pointer)
	save := e.epoch
	e.epoch = 0 // globals belong to the init epoch (journaled when written on a path)
	o := e.newObj(pt.Elem())
	o.global = true
	e.epoch = save
	e.globals[gl] = o
	return o
}

func (e *Engine) get(fr *Frame, v ssa.Value) Value {
	switch x := v.(type) {
	case *ssa.Const:
		return e.constValue(x)
	case *ssa.Global:
		return Ptr{obj: e.globalObj(x)}
	case *ssa.Function:
		return &Closure{fn: x}
	case *ssa.Builtin:
		return &Closure{bi: x}
	}
	r, ok := fr.env[v]
	if !ok {
		panic(fmt.Sprintf("internal: no value for %s in %s", v.Name(), fr.fn))
	}
	return r
}

func (e *Engine) goPanic(val Value, msg string) {
	panic(goPanicSignal{val: val, msg: msg})
}

type goPanicSignal struct {
	val Value
	msg string
}

type runtimeErrorMarker struct{}

func (e *Engine) goPanicRuntime(msg string) {
	panic(goPanicSignal{val: Iface{t: e.runtimeErrType(), v: Str{s: "runtime error: " + msg}}, msg: "runtime error: " + msg})
}

const memLimitBytes = 6 << 30

// step executes one instruction; returns true when the goroutine must yield.
func (e *Engine) step(g *G, fr *Frame) (yield bool) {
	e.steps++
	if e.steps&0xfffff == 0 {
		// memory guard: a worker that grows beyond its share ends the path as out-of-budget
		// instead of being killed (and taking the machine with it)
		var ms runtime.MemStats
		runtime.ReadMemStats(&ms)
		if ms.HeapAlloc > memLimitBytes {
			runtime.GC()
			runtime.ReadMemStats(&ms)
			if ms.HeapAlloc > memLimitBytes {
				panic(pathEnd{kind: endBudget, msg: fmt.Sprintf("worker heap above %d MiB", memLimitBytes>>20)})
			}
		}
	}
	if e.steps > e.opts.MaxSteps {
		panic(pathEnd{kind: endBudget, msg: fmt.Sprintf("more than %d SSA steps on one path", e.opts.MaxSteps)})
	}
	instr := fr.block.Instrs[fr.pc]
	if e.opts.Verbose > 2 {
		fmt.Printf("g%d %s: %v\n", g.id, fr.fn.Name(), instr)
	}
	switch in := instr.(type) {
	case *ssa.DebugRef:
	case *ssa.Alloc:
		o := e.newObj(in.Type().(*types.Pointer).Elem())
		fr.env[in] = Ptr{obj: o}
	case *ssa.UnOp:
		if in.Op == token.ARROW {
			return e.doRecv(g, fr, in)
		}
		if in.Op == token.MUL && e.opts.GlobalYield && len(e.gs) > 1 {
			// option globalyield: a read of a package-level variable is a scheduling point
			if p, ok := e.get(fr, in.X).(Ptr); ok && p.obj != nil && p.obj.global && e.schedPoint(g) {
				return true
			}
		}
		fr.env[in] = e.unop(in, e.get(fr, in.X))
	case *ssa.BinOp:
		fr.env[in] = e.binop(in.Op, in.X.Type(), e.get(fr, in.X), e.get(fr, in.Y), in.Y.Type())
	case *ssa.Call:
		return e.doCall(g, fr, in, &in.Call)
	case *ssa.ChangeInterface:
		fr.env[in] = e.get(fr, in.X)
	case *ssa.ChangeType:
		fr.env[in] = e.get(fr, in.X)
	case *ssa.Convert:
		fr.env[in] = e.convert(e.get(fr, in.X), in.X.Type(), in.Type())
	case *ssa.MultiConvert:
		fr.env[in] = e.convert(e.get(fr, in.X), in.X.Type(), in.Type())
	case *ssa.SliceToArrayPointer:
		s := e.get(fr, in.X).(Slice)
		n := int(in.Type().(*types.Pointer).Elem().Underlying().(*types.Array).Len())
		if s.len < n {
			e.goPanicRuntime("cannot convert slice with length to array pointer")
		}
		if s.obj == nil {
			fr.env[in] = Ptr{}
		} else {
			fr.env[in] = Ptr{obj: s.obj, off: s.off}
		}
	case *ssa.Extract:
		fr.env[in] = e.get(fr, in.Tuple).(Tuple)[in.Index]
	case *ssa.Field:
		a := e.get(fr, in.X).(Agg)
		st := in.X.Type().Underlying().(*types.Struct)
		off := layoutOf(in.X.Type()).offsets[in.Field]
		ft := st.Field(in.Field).Type()
		if isAgg(ft) {
			fr.env[in] = append(Agg(nil), a[off:off+flatSize(ft)]...)
		} else {
			fr.env[in] = a[off]
		}
	case *ssa.FieldAddr:
		p := e.get(fr, in.X).(Ptr)
		if p.obj == nil {
			e.goPanicRuntime("invalid memory address or nil pointer dereference")
		}
		st := in.X.Type().Underlying().(*types.Pointer).Elem()
		p.off += layoutOf(st).offsets[in.Field]
		fr.env[in] = p
	case *ssa.Index:
		fr.env[in] = e.index(in, e.get(fr, in.X), e.get(fr, in.Index).(*Term))
	case *ssa.IndexAddr:
		fr.env[in] = e.indexAddr(in, e.get(fr, in.X), e.get(fr, in.Index).(*Term))
	case *ssa.Lookup:
		e.lookup(fr, in)
	case *ssa.MakeChan:
		n := e.concretize(e.get(fr, in.Size).(*Term))
		fr.env[in] = e.newChan(int(n), in.Type().Underlying().(*types.Chan).Elem())
	case *ssa.MakeClosure:
		c := &Closure{fn: in.Fn.(*ssa.Function)}
		for _, b := range in.Bindings {
			c.free = append(c.free, e.get(fr, b))
		}
		fr.env[in] = c
	case *ssa.MakeInterface:
		fr.env[in] = Iface{t: in.X.Type(), v: e.get(fr, in.X)}
	case *ssa.MakeMap:
		mt := in.Type().Underlying().(*types.Map)
		fr.env[in] = e.newMap(mt.Key(), mt.Elem())
	case *ssa.MakeSlice:
		l := e.concInt(e.get(fr, in.Len).(*Term), in.Len.Type())
		c := e.concInt(e.get(fr, in.Cap).(*Term), in.Cap.Type())
		if l < 0 || c < l {
			e.goPanicRuntime("makeslice: len out of range")
		}
		et := in.Type().Underlying().(*types.Slice).Elem()
		o := e.newArrayObj(et, int(c))
		fr.env[in] = Slice{obj: o, off: 0, len: int(l), cap: int(c), esz: flatSize(et)}
	case *ssa.MapUpdate:
		m := e.get(fr, in.Map).(*MapObj)
		e.mapUpdate(m, e.get(fr, in.Key), e.get(fr, in.Value))
	case *ssa.Next:
		e.next(fr, in)
	case *ssa.Phi:
		// handled at block entry
		panic("internal: phi executed")
	case *ssa.Range:
		e.rangeStart(fr, in)
	case *ssa.Select:
		return e.doSelect(g, fr, in)
	case *ssa.Send:
		return e.doSend(g, fr, in)
	case *ssa.Slice:
		fr.env[in] = e.slice(fr, in)
	case *ssa.Store:
		p := e.get(fr, in.Addr).(Ptr)
		if e.opts.GlobalYield && len(e.gs) > 1 && p.obj != nil && p.obj.global && e.schedPoint(g) {
			return true // option globalyield: a write of a package-level variable is a scheduling point
		}
		e.store(p, in.Val.Type(), e.get(fr, in.Val))
	case *ssa.TypeAssert:
		e.typeAssert(fr, in)
	case *ssa.If:
		c := e.get(fr, in.Cond).(*Term)
		if e.branch(c) {
			e.jump(fr, fr.block.Succs[0])
		} else {
			e.jump(fr, fr.block.Succs[1])
		}
		return false
	case *ssa.Jump:
		e.jump(fr, fr.block.Succs[0])
		return false
	case *ssa.Return:
		var res Value
		switch len(in.Results) {
		case 0:
		case 1:
			res = e.get(fr, in.Results[0])
		default:
			t := make(Tuple, len(in.Results))
			for i, r := range in.Results {
				t[i] = e.get(fr, r)
			}
			res = t
		}
		e.doReturn(g, fr, res)
		return false
	case *ssa.Panic:
		v := e.get(fr, in.X)
		e.goPanic(v, "panic: "+describe(v))
	case *ssa.RunDefers:
		if len(fr.defers) > 0 {
			d := fr.defers[len(fr.defers)-1]
			fr.defers = fr.defers[:len(fr.defers)-1]
			// stay on this instruction until all defers ran
			e.invoke(g, fr, d.callee, d.args, nil, func(Value) {}, modeRunDefers)
			return false
		}
	case *ssa.Defer:
		callee, args := e.prepareCall(fr, &in.Call)
		fr.defers = append(fr.defers, deferRec{callee: callee, args: args})
	case *ssa.Go:
		callee, args := e.prepareCall(fr, &in.Call)
		ng := e.newG()
		e.invoke(ng, nil, callee, args, nil, nil, modeNormal)
		if len(ng.stack) == 0 {
			ng.status = gDone
		}
	default:
		panic(pathEnd{kind: endUnsupported, msg: fmt.Sprintf("instruction %T", instr)})
	}
	fr.pc++
	return false
}

func (e *Engine) concInt(t *Term, typ types.Type) int64 {
	v := e.concretize(t)
	return signExt(v, t.W)
}

func (e *Engine) jump(fr *Frame, to *ssa.BasicBlock) {
	from := fr.block
	fr.prev = from
	fr.block = to
	fr.pc = 0
	// evaluate phis in parallel
	var idx = -1
	var vals []Value
	for _, in := range to.Instrs {
		phi, ok := in.(*ssa.Phi)
		if !ok {
			break
		}
		if idx < 0 {
			for i, p := range to.Preds {
				if p == from {
					idx = i
					break
				}
			}
		}
		vals = append(vals, e.get(fr, phi.Edges[idx]))
		fr.pc++
	}
	for i := 0; i < len(vals); i++ {
		fr.env[to.Instrs[i].(*ssa.Phi)] = vals[i]
	}
}

// ---------------------------------------------------------------------------
// calls, returns, panics

func (e *Engine) prepareCall(fr *Frame, cc *ssa.CallCommon) (*Closure, []Value) {
	var args []Value
	var callee *Closure
	if cc.IsInvoke() {
		recv := e.get(fr, cc.Value).(Iface)
		if recv.t == nil {
			e.goPanicRuntime("invalid memory address or nil pointer dereference (method call on nil interface)")
		}
		fn := e.lookupMethod(recv.t, cc.Method)
		callee = &Closure{fn: fn}
		args = append(args, recv.v)
	} else {
		callee = e.get(fr, cc.Value).(*Closure)
		if callee == nil {
			e.goPanicRuntime("call of nil func")
		}
	}
	for _, a := range cc.Args {
		args = append(args, e.get(fr, a))
	}
	return callee, args
}

func (e *Engine) lookupMethod(t types.Type, m *types.Func) *ssa.Function {
	ms := e.prog.MethodSets.MethodSet(t)
	sel := ms.Lookup(m.Pkg(), m.Name())
	if sel == nil {
		panic(pathEnd{kind: endUnsupported, msg: fmt.Sprintf("method %s not found on %s", m.Name(), t)})
	}
	fn := e.prog.MethodValue(sel)
	if fn == nil {
		panic(pathEnd{kind: endUnsupported, msg: fmt.Sprintf("no ssa function for %s.%s", t, m.Name())})
	}
	return fn
}

func (e *Engine) doCall(g *G, fr *Frame, in *ssa.Call, cc *ssa.CallCommon) bool {
	callee, args := e.prepareCall(fr, cc)
	return e.invoke(g, fr, callee, args, in, nil, modeNormal)
}

// invoke calls callee. If fr != nil and in != nil the result is stored in
// fr.env[in] and fr.pc advances when the call completes. onRet (optional) is
// called with the result instead. Returns true if g must yield.
func (e *Engine) invoke(g *G, fr *Frame, callee *Closure, args []Value, in ssa.Value, onRet func(Value), mode int) bool {
	finish := func(res Value) {
		if onRet != nil {
			onRet(res)
			return
		}
		if fr != nil && in != nil {
			fr.env[in] = res
			fr.pc++
		}
	}
	if callee.bi != nil {
		var argTypes []types.Type
		if c, ok := in.(*ssa.Call); ok {
			for _, a := range c.Call.Args {
				argTypes = append(argTypes, a.Type())
			}
		}
		res := e.builtin(g, callee.bi, args, argTypes, in)
		finish(res)
		return false
	}
	fn := callee.fn
	if fn.Synthetic == "package initializer" {
		finish(nil)
		return false
	}
	if len(callee.bound) > 0 {
		args = append(append([]Value(nil), callee.bound...), args...)
	}
	meta := e.fnMeta(fn)
	name := meta.name
	if len(e.stubs) == 0 {
	} else if st, ok := e.stubs[name]; ok && (fr == nil || !e.inStub(fr, st)) {
		e.stubUsed[name] = true
		return e.invoke(g, fr, st, args, in, onRet, mode)
	}
	if nf := meta.native; nf != nil {
		if res, ok := nf(e, args); ok {
			e.intrUsed["native:"+name]++
			finish(res)
			return false
		}
	}
	if intr := meta.intr; intr != nil {
		e.intrUsed[name]++
		ctx := &callCtx{e: e, g: g, fr: fr, in: in, finish: finish, fn: fn}
		res, st := intr(ctx, args)
		switch st {
		case callDone:
			finish(res)
			return false
		case callBlocked:
			return true
		case callYield:
			return true
		case callDoneYield:
			finish(res)
			return true
		case callPushed:
			return false
		}
	}
	nf := e.pushFrame(g, fn, args, callee.free)
	nf.retTo = in
	nf.onRet = onRet
	nf.mode = mode
	nf.owner = fr
	if fr == nil {
		nf.caller = nil
	}
	return false
}

func (e *Engine) inStub(fr *Frame, st *Closure) bool {
	// a stub may call the function it replaces: inside the stub's own frames the
	// replacement is disabled
	for f := fr; f != nil; f = f.caller {
		if f.fn == st.fn {
			return true
		}
	}
	return false
}

func (e *Engine) doReturn(g *G, fr *Frame, res Value) {
	g.stack = g.stack[:len(g.stack)-1]
	e.deliver(g, fr, res)
}

func (e *Engine) deliver(g *G, fr *Frame, res Value) {
	if fr.mode == modeUnwind {
		// a deferred call run during unwinding finished
		e.unwind(g)
		return
	}
	if fr.onRet != nil {
		fr.onRet(res)
		return
	}
	c := fr.owner
	if c == nil {
		if len(g.stack) == 0 {
			g.status = gDone
		}
		return
	}
	if fr.retTo != nil {
		c.env[fr.retTo] = res
		c.pc++
	}
}

func (e *Engine) startPanic(g *G, val Value, msg string) {
	g.panicking = &panicState{val: val, msg: msg}
	e.unwind(g)
}

// unwind runs deferred calls of the frames on g's stack until the panic is
// recovered or the stack is empty.
func (e *Engine) unwind(g *G) {
	for {
		fr := g.top()
		if fr == nil {
			ps := g.panicking
			if abortSentinel(ps.val) {
				panic(pathEnd{kind: endAbort, msg: ps.msg})
			}
			panic(pathEnd{kind: endPanic, msg: ps.msg})
		}
		if len(fr.defers) > 0 {
			d := fr.defers[len(fr.defers)-1]
			fr.defers = fr.defers[:len(fr.defers)-1]
			fr.unwind = true
			depth := len(g.stack)
			e.invoke(g, fr, d.callee, d.args, nil, func(Value) {}, modeUnwind)
			if len(g.stack) > depth {
				return // deferred function now runs; deliver() re-enters unwind
			}
			// intrinsic/builtin defer completed immediately
			continue
		}
		if g.panicking.recovered && fr.unwind {
			// the frame whose deferred call recovered returns normally
			g.panicking = nil
			fr.unwind = false
			if fr.fn.Recover != nil {
				fr.block = fr.fn.Recover
				fr.pc = 0
				return
			}
			// return zero results
			var res Value
			rs := fr.fn.Signature.Results()
			switch rs.Len() {
			case 0:
			case 1:
				res = zeroValue(rs.At(0).Type())
			default:
				t := make(Tuple, rs.Len())
				for i := range t {
					t[i] = zeroValue(rs.At(i).Type())
				}
				res = t
			}
			g.stack = g.stack[:len(g.stack)-1]
			e.deliver(g, fr, res)
			return
		}
		g.stack = g.stack[:len(g.stack)-1]
	}
}

type abortVal struct{ code int }

func abortSentinel(v Value) bool {
	if i, ok := v.(Iface); ok {
		_, ok2 := i.v.(abortVal)
		return ok2
	}
	return false
}

// callSync runs fn to completion on goroutine g (nested interpreter loop);
// used by intrinsics that need a method result (Error(), String(), less()).
func (e *Engine) callSync(g *G, callee *Closure, args []Value) Value {
	var out Value
	done := false
	depth := len(g.stack)
	e.invoke(g, nil, callee, args, nil, func(v Value) { out = v; done = true }, modeNormal)
	for !done {
		if len(g.stack) <= depth {
			panic(pathEnd{kind: endUnsupported, msg: "callSync: callee vanished (panic inside synchronous call)"})
		}
		fr := g.top()
		if g.status != gRunnable {
			panic(pathEnd{kind: endUnsupported, msg: "callSync: callee blocked"})
		}
		e.stepProtected(g, fr)
	}
	return out
}

func (e *Engine) stepProtected(g *G, fr *Frame) {
	defer func() {
		if r := recover(); r != nil {
			if ps, ok := r.(goPanicSignal); ok {
				e.startPanic(g, ps.val, ps.msg+" in "+fr.fn.String())
				return
			}
			panic(r)
		}
	}()
	e.step(g, fr)
}

// ---------------------------------------------------------------------------
// operators

func (e *Engine) unop(in *ssa.UnOp, x Value) Value {
	switch in.Op {
	case token.NOT:
		return Not(x.(*Term))
	case token.SUB:
		t := x.(*Term)
		if isFloat(in.X.Type()) {
			return Bin(OpBXor, t, BV(t.W, uint64(1)<<uint(t.W-1)))
		}
		return Neg(t)
	case token.XOR:
		return BNot(x.(*Term))
	case token.MUL:
		p := x.(Ptr)
		v := e.load(p, in.Type())
		return e.fixLoaded(v, in.Type())
	}
	panic(pathEnd{kind: endUnsupported, msg: "unop " + in.Op.String()})
}

// fixLoaded repairs values read through reinterpreting pointer casts
// (string <-> []byte headers via unsafe.Pointer).
func (e *Engine) fixLoaded(v Value, t types.Type) Value {
	switch t.Underlying().(type) {
	case *types.Basic:
		if isString(t) {
			if s, ok := v.(Slice); ok {
				return e.sliceToStr(s)
			}
		}
	case *types.Slice:
		if s, ok := v.(Str); ok {
			return e.strToSlice(s, t.Underlying().(*types.Slice).Elem())
		}
	}
	return v
}

func (e *Engine) sliceToStr(s Slice) Str {
	ts := make([]*Term, s.len)
	for i := range ts {
		ts[i] = s.obj.get(s.off + i).(*Term)
	}
	return mkStr(ts)
}

func (e *Engine) strToSlice(s Str, et types.Type) Slice {
	n := s.Len()
	o := e.newArrayObj(et, n)
	for i := 0; i < n; i++ {
		o.put(i, s.At(i))
	}
	return Slice{obj: o, len: n, cap: n, esz: 1}
}

func fbits(t *Term, w int) float64 {
	if w == 32 {
		return float64(math.Float32frombits(uint32(t.V)))
	}
	return math.Float64frombits(t.V)
}

func fterm(f float64, w int) *Term {
	if w == 32 {
		return BV(32, uint64(math.Float32bits(float32(f))))
	}
	return BV(64, math.Float64bits(f))
}

func (e *Engine) binop(op token.Token, xt types.Type, x, y Value, yt types.Type) Value {
	switch a := x.(type) {
	case *Term:
		b := y.(*Term)
		if a.W == 0 {
			switch op {
			case token.EQL:
				return Eq(a, b)
			case token.NEQ:
				return Not(Eq(a, b))
			case token.AND:
				return And(a, b)
			case token.OR:
				return Or(a, b)
			}
			panic(pathEnd{kind: endUnsupported, msg: "bool binop " + op.String()})
		}
		if isFloat(xt) {
			return e.floatBinop(op, a, b)
		}
		signed := isSigned(xt)
		switch op {
		case token.ADD:
			return Bin(OpAdd, a, b)
		case token.SUB:
			return Bin(OpSub, a, b)
		case token.MUL:
			return Bin(OpMul, a, b)
		case token.QUO, token.REM:
			if e.branch(Eq(b, BV(b.W, 0))) {
				e.goPanicRuntime("integer divide by zero")
			}
			if op == token.QUO {
				if signed {
					return Bin(OpSDiv, a, b)
				}
				return Bin(OpUDiv, a, b)
			}
			if signed {
				return Bin(OpSRem, a, b)
			}
			r := Bin(OpURem, a, b)
			if !r.IsConst() {
				// valid lemmas about unsigned remainder (b != 0 on this path): help
				// back ends that bit-blast the divider
				e.addPC(Bin(OpULt, r, b))
				e.addPC(Bin(OpULe, r, a))
			}
			return r
		case token.AND:
			return Bin(OpBAnd, a, b)
		case token.OR:
			return Bin(OpBOr, a, b)
		case token.XOR:
			return Bin(OpBXor, a, b)
		case token.AND_NOT:
			return Bin(OpBAnd, a, BNot(b))
		case token.SHL, token.SHR:
			// shift count: convert to width of a
			if isSigned(yt) {
				if e.branch(Bin(OpSLt, b, BV(b.W, 0))) {
					e.goPanicRuntime("negative shift amount")
				}
			}
			var cnt *Term
			if b.W > a.W {
				big := Bin(OpULe, BV(b.W, uint64(a.W)), b)
				cnt = Ite(big, BV(a.W, uint64(a.W)), Extract(b, a.W-1, 0))
			} else {
				cnt = ZExt(b, a.W)
			}
			if op == token.SHL {
				return Bin(OpShl, a, cnt)
			}
			if signed {
				return Bin(OpAShr, a, cnt)
			}
			return Bin(OpLShr, a, cnt)
		case token.EQL:
			return Eq(a, b)
		case token.NEQ:
			return Not(Eq(a, b))
		case token.LSS:
			if signed {
				return Bin(OpSLt, a, b)
			}
			return Bin(OpULt, a, b)
		case token.LEQ:
			if signed {
				return Bin(OpSLe, a, b)
			}
			return Bin(OpULe, a, b)
		case token.GTR:
			if signed {
				return Bin(OpSLt, b, a)
			}
			return Bin(OpULt, b, a)
		case token.GEQ:
			if signed {
				return Bin(OpSLe, b, a)
			}
			return Bin(OpULe, b, a)
		}
	case Str:
		b := y.(Str)
		switch op {
		case token.ADD:
			if a.Concrete() && b.Concrete() {
				return Str{s: a.s + b.s}
			}
			return mkStr(append(append([]*Term(nil), a.Terms()...), b.Terms()...))
		case token.EQL:
			return e.valuesEqual(a, b)
		case token.NEQ:
			return Not(e.valuesEqual(a, b))
		case token.LSS:
			return strLess(a, b)
		case token.GTR:
			return strLess(b, a)
		case token.LEQ:
			return Not(strLess(b, a))
		case token.GEQ:
			return Not(strLess(a, b))
		}
	default:
		switch op {
		case token.EQL:
			return e.valuesEqual(x, y)
		case token.NEQ:
			return Not(e.valuesEqual(x, y))
		}
	}
	panic(pathEnd{kind: endUnsupported, msg: fmt.Sprintf("binop %s on %T", op, x)})
}

func strLess(a, b Str) *Term {
	if a.Concrete() && b.Concrete() {
		return Bool(a.s < b.s)
	}
	n := a.Len()
	if b.Len() < n {
		n = b.Len()
	}
	r := Bool(a.Len() < b.Len())
	for i := n - 1; i >= 0; i-- {
		r = Ite(Eq(a.At(i), b.At(i)), r, Bin(OpULt, a.At(i), b.At(i)))
	}
	return r
}

func (e *Engine) floatBinop(op token.Token, a, b *Term) Value {
	w := a.W
	if a.Op == OpConst && b.Op == OpConst {
		x, y := fbits(a, w), fbits(b, w)
		switch op {
		case token.ADD:
			return fterm(x+y, w)
		case token.SUB:
			return fterm(x-y, w)
		case token.MUL:
			return fterm(x*y, w)
		case token.QUO:
			return fterm(x/y, w)
		case token.EQL:
			return Bool(x == y)
		case token.NEQ:
			return Bool(x != y)
		case token.LSS:
			return Bool(x < y)
		case token.LEQ:
			return Bool(x <= y)
		case token.GTR:
			return Bool(x > y)
		case token.GEQ:
			return Bool(x >= y)
		}
	}
	switch op {
	case token.EQL:
		return FPred(OpFEq, w, a, b)
	case token.NEQ:
		return Not(FPred(OpFEq, w, a, b))
	case token.LSS:
		return FPred(OpFLt, w, a, b)
	case token.LEQ:
		return FPred(OpFLe, w, a, b)
	case token.GTR:
		return FPred(OpFLt, w, b, a)
	case token.GEQ:
		return FPred(OpFLe, w, b, a)
	}
	// arithmetic on symbolic floats: opaque result (uninterpreted)
	return UF("fop_"+sanitize(op.String()), w, a, b)
}

func (e *Engine) convert(x Value, from, to types.Type) Value {
	fu, tu := from.Underlying(), to.Underlying()
	switch tb := tu.(type) {
	case *types.Basic:
		switch {
		case tb.Info()&types.IsInteger != 0:
			t, ok := x.(*Term)
			if !ok {
				if tb.Kind() == types.Uintptr {
					if p, ok := x.(Ptr); ok {
						return p // uintptr(unsafe.Pointer(p)): keep the pointer
					}
				}
				panic(pathEnd{kind: endUnsupported, msg: fmt.Sprintf("convert %s to %s", from, to)})
			}
			tw := bitWidth(to)
			if isFloat(from) {
				if t.Op != OpConst {
					return UF(fmt.Sprintf("f2i_%d_%d", t.W, tw), tw, t)
				}
				f := fbits(t, t.W)
				if isSigned(to) {
					return BV(tw, uint64(int64(f)))
				}
				return BV(tw, uint64(f))
			}
			if tw > t.W {
				if isSigned(from) {
					return SExt(t, tw)
				}
				return ZExt(t, tw)
			}
			return Extract(t, tw-1, 0)
		case tb.Info()&types.IsFloat != 0:
			t := x.(*Term)
			tw := bitWidth(to)
			if isFloat(from) {
				if t.W == tw {
					return t
				}
				if t.Op != OpConst {
					return UF(fmt.Sprintf("f2f_%d_%d", t.W, tw), tw, t)
				}
				return fterm(fbits(t, t.W), tw)
			}
			if t.Op != OpConst {
				sg := "u"
				if isSigned(from) {
					sg = "s"
				}
				return UF(fmt.Sprintf("i2f_%s%d_%d", sg, t.W, tw), tw, t)
			}
			if isSigned(from) {
				return fterm(float64(t.SInt()), tw)
			}
			return fterm(float64(t.V), tw)
		case tb.Info()&types.IsString != 0:
			switch v := x.(type) {
			case Str:
				return v
			case Slice:
				if v.obj == nil {
					return Str{}
				}
				et := fu.(*types.Slice).Elem()
				if bitWidth(et) == 8 {
					return e.sliceToStr(v)
				}
				// []rune
				var bs []byte
				for i := 0; i < v.len; i++ {
					r := v.obj.get(v.off + i).(*Term)
					bs = utf8.AppendRune(bs, rune(e.concretize(r)))
				}
				return Str{s: string(bs)}
			case *Term:
				r := e.concretize(v)
				return Str{s: string(rune(signExt(r, v.W)))}
			}
		case tb.Kind() == types.UnsafePointer:
			return x
		case tb.Info()&types.IsBoolean != 0:
			return x
		}
	case *types.Slice:
		if s, ok := x.(Str); ok {
			if bitWidth(tb.Elem()) == 8 {
				return e.strToSlice(s, tb.Elem())
			}
			// []rune(s)
			if !s.Concrete() {
				panic(pathEnd{kind: endUnsupported, msg: "[]rune of symbolic string"})
			}
			rs := []rune(s.s)
			o := e.newArrayObj(tb.Elem(), len(rs))
			for i, r := range rs {
				o.cells[i] = BV(32, uint64(r))
			}
			return Slice{obj: o, len: len(rs), cap: len(rs), esz: 1}
		}
		return x
	case *types.Pointer:
		return x
	}
	return x
}

// ---------------------------------------------------------------------------
// indexing and slicing

// boundsCheck forks on idx being inside [0,n); the out-of-range side panics.
func (e *Engine) boundsCheck(idx *Term, n int, what string) {
	c := Bin(OpULt, idx, BV(idx.W, uint64(n)))
	if idx.W < 64 && uint64(n) > mask(idx.W) {
		c = True
	}
	if !e.branch(c) {
		e.goPanicRuntime(fmt.Sprintf("index out of range [%s] with length %d", idx.String(), n))
	}
}

const symIndexLimit = 1024

func (e *Engine) index(in *ssa.Index, x Value, idx *Term) Value {
	switch v := x.(type) {
	case Str:
		e.boundsCheck(idx, v.Len(), "string")
		if idx.Op == OpConst {
			return v.At(int(idx.V))
		}
		if v.Len() > symIndexLimit {
			return v.At(int(e.concretize(idx)))
		}
		return muxTerms(idx, v.Terms())
	case Agg:
		at := in.X.Type().Underlying().(*types.Array)
		n := int(at.Len())
		es := flatSize(at.Elem())
		e.boundsCheck(idx, n, "array")
		if idx.Op != OpConst && (es != 1 || n > symIndexLimit) {
			idx = BV(idx.W, e.concretize(idx))
		}
		if idx.Op == OpConst {
			i := int(idx.V)
			if es == 1 && !isAgg(at.Elem()) {
				return v[i]
			}
			return append(Agg(nil), v[i*es:(i+1)*es]...)
		}
		return e.muxValues(idx, v[:n])
	}
	panic(pathEnd{kind: endUnsupported, msg: fmt.Sprintf("index on %T", x)})
}

// muxTerms selects ts[idx] with a balanced ite tree over the index bits.
func muxTerms(idx *Term, ts []*Term) *Term {
	allSame := true
	for _, t := range ts[1:] {
		if t != ts[0] {
			allSame = false
			break
		}
	}
	if allSame {
		return ts[0]
	}
	nbits := 0
	for (1 << uint(nbits)) < len(ts) {
		nbits++
	}
	var rec func(lo, bit int) *Term
	rec = func(lo, bit int) *Term {
		if bit < 0 {
			if lo < len(ts) {
				return ts[lo]
			}
			return ts[len(ts)-1]
		}
		if lo >= len(ts) {
			return ts[len(ts)-1]
		}
		b := Eq(Extract(idx, bit, bit), BV(1, 1))
		return Ite(b, rec(lo+(1<<uint(bit)), bit-1), rec(lo, bit-1))
	}
	if nbits > idx.W {
		nbits = idx.W
	}
	return rec(0, nbits-1)
}

func (e *Engine) muxValues(idx *Term, vs []Value) Value {
	if _, ok := vs[0].(*Term); ok {
		ts := make([]*Term, len(vs))
		for i, v := range vs {
			ts[i] = v.(*Term)
		}
		return muxTerms(idx, ts)
	}
	var res Value
	for i := len(vs) - 1; i >= 0; i-- {
		if res == nil {
			res = vs[i]
		} else {
			res = e.iteValue(Eq(idx, BV(idx.W, uint64(i))), vs[i], res)
		}
	}
	return res
}

func (e *Engine) indexAddr(in *ssa.IndexAddr, x Value, idx *Term) Value {
	switch v := x.(type) {
	case Slice:
		e.boundsCheck(idx, v.len, "slice")
		if idx.Op != OpConst && (v.len > symIndexLimit || v.obj.cells == nil) {
			idx = BV(idx.W, e.concretize(idx))
		}
		if idx.Op == OpConst {
			return Ptr{obj: v.obj, off: v.off + int(idx.V)*v.esz}
		}
		return Ptr{obj: v.obj, off: v.off, sym: idx, stride: v.esz, count: v.len}
	case Ptr: // *array
		if v.obj == nil {
			e.goPanicRuntime("invalid memory address or nil pointer dereference")
		}
		at := in.X.Type().Underlying().(*types.Pointer).Elem().Underlying().(*types.Array)
		n := int(at.Len())
		es := flatSize(at.Elem())
		e.boundsCheck(idx, n, "array")
		if v.sym != nil {
			v = e.concretizePtr(v)
		}
		if idx.Op != OpConst && n > symIndexLimit {
			idx = BV(idx.W, e.concretize(idx))
		}
		if idx.Op == OpConst {
			return Ptr{obj: v.obj, off: v.off + int(idx.V)*es}
		}
		return Ptr{obj: v.obj, off: v.off, sym: idx, stride: es, count: n}
	}
	panic(pathEnd{kind: endUnsupported, msg: fmt.Sprintf("indexaddr on %T", x)})
}

func (e *Engine) slice(fr *Frame, in *ssa.Slice) Value {
	x := e.get(fr, in.X)
	opt := func(v ssa.Value, def int) int {
		if v == nil {
			return def
		}
		t := e.get(fr, v).(*Term)
		r := signExt(e.concretize(t), t.W)
		if r < 0 || r > 1<<40 {
			return -1
		}
		return int(r)
	}
	switch v := x.(type) {
	case Str:
		if in.Low != nil && in.High != nil {
			lt, ht := e.get(fr, in.Low).(*Term), e.get(fr, in.High).(*Term)
			if !lt.IsConst() && lt.W == ht.W {
				if d := Bin(OpSub, ht, lt); d.IsConst() && d.V <= 16 && v.Len() <= symIndexLimit && int(d.V) <= v.Len() {
					k := int(d.V)
					// bounds: lo + k <= len (unsigned), else panic
					okc := Bin(OpULe, lt, BV(lt.W, uint64(v.Len()-k)))
					if !e.branch(okc) {
						e.goPanicRuntime("slice bounds out of range (symbolic)")
					}
					ts := v.Terms()
					out := make([]*Term, k)
					for j := 0; j < k; j++ {
						out[j] = muxTerms(lt, ts[j:len(ts)-k+j+1])
					}
					if k == 0 {
						return Str{}
					}
					return mkStr(out)
				}
			}
		}
		lo := opt(in.Low, 0)
		hi := opt(in.High, v.Len())
		if lo < 0 || hi < lo || hi > v.Len() {
			e.goPanicRuntime(fmt.Sprintf("slice bounds out of range [%d:%d] with length %d", lo, hi, v.Len()))
		}
		return v.Sub(lo, hi)
	case Slice:
		lo := opt(in.Low, 0)
		hi := opt(in.High, v.len)
		mx := opt(in.Max, v.cap)
		if lo < 0 || hi < lo || mx < hi || mx > v.cap {
			e.goPanicRuntime(fmt.Sprintf("slice bounds out of range [%d:%d:%d] with capacity %d", lo, hi, mx, v.cap))
		}
		if v.obj == nil {
			return Slice{}
		}
		return Slice{obj: v.obj, off: v.off + lo*v.esz, len: hi - lo, cap: mx - lo, esz: v.esz}
	case Ptr: // *array
		if v.obj == nil {
			e.goPanicRuntime("slice of nil array pointer")
		}
		if v.sym != nil {
			v = e.concretizePtr(v)
		}
		at := in.X.Type().Underlying().(*types.Pointer).Elem().Underlying().(*types.Array)
		n := int(at.Len())
		es := flatSize(at.Elem())
		lo := opt(in.Low, 0)
		hi := opt(in.High, n)
		mx := opt(in.Max, n)
		if lo < 0 || hi < lo || mx < hi || mx > n {
			e.goPanicRuntime(fmt.Sprintf("slice bounds out of range [%d:%d:%d] with capacity %d", lo, hi, mx, n))
		}
		return Slice{obj: v.obj, off: v.off + lo*es, len: hi - lo, cap: mx - lo, esz: es}
	}
	panic(pathEnd{kind: endUnsupported, msg: fmt.Sprintf("slice on %T", x)})
}

func (e *Engine) lookup(fr *Frame, in *ssa.Lookup) {
	x := e.get(fr, in.X)
	switch v := x.(type) {
	case Str:
		idx := e.get(fr, in.Index).(*Term)
		e.boundsCheck(idx, v.Len(), "string")
		if idx.Op == OpConst {
			fr.env[in] = v.At(int(idx.V))
		} else if v.Len() > symIndexLimit {
			fr.env[in] = v.At(int(e.concretize(idx)))
		} else {
			fr.env[in] = muxTerms(idx, v.Terms())
		}
	case *MapObj:
		k := e.get(fr, in.Index)
		val, ok := e.mapLookup(v, k)
		vt := in.X.Type().Underlying().(*types.Map).Elem()
		if !ok {
			val = zeroValue(vt)
		}
		if a, isA := val.(Agg); isA {
			val = append(Agg(nil), a...)
		}
		if in.CommaOk {
			fr.env[in] = Tuple{val, Bool(ok)}
		} else {
			fr.env[in] = val
		}
	default:
		panic(pathEnd{kind: endUnsupported, msg: fmt.Sprintf("lookup on %T", x)})
	}
}

func (e *Engine) rangeStart(fr *Frame, in *ssa.Range) {
	x := e.get(fr, in.X)
	switch v := x.(type) {
	case Str:
		fr.env[in] = &RangeIter{s: v, isS: true}
	case *MapObj:
		it := &RangeIter{m: v}
		if v != nil {
			for _, en := range v.entries {
				if en.live {
					it.keys = append(it.keys, en)
				}
			}
			if len(it.keys) > 1 && e.mapOrderForks() {
				it.keys = e.permute(it.keys)
			}
		}
		fr.env[in] = it
	default:
		panic(pathEnd{kind: endUnsupported, msg: fmt.Sprintf("range on %T", x)})
	}
}

func (e *Engine) mapOrderForks() bool {
	v, ok := e.extra["mapOrder"]
	return ok && v.(int) > 0
}

func (e *Engine) permute(es []mapEntry) []mapEntry {
	if len(es) > e.extra["mapOrder"].(int) {
		return es
	}
	out := make([]mapEntry, 0, len(es))
	rest := append([]mapEntry(nil), es...)
	for len(rest) > 0 {
		k := e.choose(len(rest))
		out = append(out, rest[k])
		rest = append(rest[:k], rest[k+1:]...)
	}
	return out
}

func (e *Engine) next(fr *Frame, in *ssa.Next) {
	it := e.get(fr, in.Iter).(*RangeIter)
	if it.isS {
		if it.i >= it.s.Len() {
			fr.env[in] = Tuple{False, BV(64, 0), BV(32, 0)}
			return
		}
		i := it.i
		b0 := it.s.At(i)
		if b0.Op == OpConst && b0.V < utf8.RuneSelf {
			it.i++
			fr.env[in] = Tuple{True, BV(64, uint64(i)), BV(32, b0.V)}
			return
		}
		rest := it.s.Sub(i, it.s.Len())
		if rest.Concrete() {
			r, sz := utf8.DecodeRuneInString(rest.s)
			it.i += sz
			fr.env[in] = Tuple{True, BV(64, uint64(i)), BV(32, uint64(r))}
			return
		}
		// symbolic bytes: run the real decoder
		dec := e.prog.ImportedPackage("unicode/utf8").Func("DecodeRuneInString")
		res := e.callSync(e.cur, &Closure{fn: dec}, []Value{rest}).(Tuple)
		sz := int(e.concretize(res[1].(*Term)))
		it.i += sz
		fr.env[in] = Tuple{True, BV(64, uint64(i)), res[0]}
		return
	}
	// map
	for it.i < len(it.keys) {
		en := it.keys[it.i]
		it.i++
		// skip entries deleted since the range started
		if j := e.mapFindExact(it.m, en.k); j >= 0 {
			fr.env[in] = Tuple{True, en.k, it.m.entries[j].v}
			return
		}
	}
	mt := in.Iter.(*ssa.Range).X.Type().Underlying().(*types.Map)
	fr.env[in] = Tuple{False, zeroValue(mt.Key()), zeroValue(mt.Elem())}
}

// mapFindExact finds the live entry with an identical key (no forking).
func (e *Engine) mapFindExact(m *MapObj, k Value) int {
	if nk, ok := nativeKey(k); ok {
		if i, ok := m.idx[nk]; ok {
			return i
		}
		return -1
	}
	for i := range m.entries {
		if m.entries[i].live && valuesIdentical(m.entries[i].k, k) {
			return i
		}
	}
	return -1
}

func (e *Engine) typeAssert(fr *Frame, in *ssa.TypeAssert) {
	x := e.get(fr, in.X).(Iface)
	var ok bool
	var res Value
	if _, isI := in.AssertedType.Underlying().(*types.Interface); isI {
		if x.t != nil {
			ok = types.Implements(x.t, in.AssertedType.Underlying().(*types.Interface))
			if !ok && e.isRuntimeErr(x.t) {
				ok = true // our runtime error value implements error/runtime.Error
			}
		}
		res = x
		if !ok {
			res = Iface{}
		}
	} else {
		ok = x.t != nil && types.Identical(x.t, in.AssertedType)
		if ok {
			res = x.v
		} else {
			res = zeroValue(in.AssertedType)
		}
	}
	if in.CommaOk {
		fr.env[in] = Tuple{res, Bool(ok)}
		return
	}
	if !ok {
		ts := "nil"
		if x.t != nil {
			ts = x.t.String()
		}
		e.goPanicRuntime(fmt.Sprintf("interface conversion: interface is %s, not %s", ts, in.AssertedType))
	}
	fr.env[in] = res
}

type fnMetaT struct {
	name   string
	native nativeFn
	intr   intrinsic
}

func (e *Engine) fnMeta(fn *ssa.Function) *fnMetaT {
	if m, ok := e.metaCache[fn]; ok {
		return m
	}
	m := &fnMetaT{name: fn.String()}
	m.native = natives[m.name]
	m.intr = e.findIntrinsic(fn, m.name)
	if e.metaCache == nil {
		e.metaCache = map[*ssa.Function]*fnMetaT{}
	}
	e.metaCache[fn] = m
	return m
}
