package gosym

import (
	"bufio"
	"fmt"
	"io"
	"os"
	"os/exec"
	"strconv"
	"strings"
	"time"
)

type SatResult int

const (
	Unsat SatResult = iota
	Sat
	Unknown
)

func (r SatResult) String() string { return [...]string{"unsat", "sat", "unknown"}[r] }

// Solver drives one incremental SMT solver process. The assertion stack
// mirrors a prefix of the current path condition.
type Solver struct {
	Kind      string // z3 | z3-new | cvc5
	Version   string
	cmd       *exec.Cmd
	in        *bufio.Writer
	out       *bufio.Reader
	defined   map[int]bool
	ufDecl    map[string]bool
	stack     []*Term
	Queries   int
	NSat      int
	NUnsat    int
	NUnknown  int
	Seconds   float64
	TimeoutMS int
	Log       io.Writer
	MaxQuery  float64
	dead      bool
}

func NewSolver(kind string, timeoutMS int) (*Solver, error) {
	s := &Solver{Kind: kind, defined: map[int]bool{}, ufDecl: map[string]bool{}, TimeoutMS: timeoutMS}
	var args []string
	bin := kind
	switch kind {
	case "z3", "z3-new":
		args = []string{"-in", "-smt2"}
	case "cvc5":
		args = []string{"--incremental", "--lang=smt2", "--produce-models", fmt.Sprintf("--tlimit-per=%d", timeoutMS)}
	case "cvc5-int":
		bin = "cvc5"
		args = []string{"--incremental", "--lang=smt2", "--produce-models", "--solve-bv-as-int=sum", fmt.Sprintf("--tlimit-per=%d", timeoutMS)}
	default:
		return nil, fmt.Errorf("unknown solver %q", kind)
	}
	s.cmd = exec.Command(bin, args...)
	stdin, err := s.cmd.StdinPipe()
	if err != nil {
		return nil, err
	}
	stdout, err := s.cmd.StdoutPipe()
	if err != nil {
		return nil, err
	}
	s.cmd.Stderr = os.Stderr
	if err := s.cmd.Start(); err != nil {
		return nil, err
	}
	s.in = bufio.NewWriterSize(stdin, 1<<16)
	s.out = bufio.NewReaderSize(stdout, 1<<16)
	if lf := os.Getenv("VF_SMTLOG"); lf != "" {
		f, _ := os.Create(lf)
		s.Log = f
	}
	s.send("(set-option :print-success false)")
	s.send("(set-option :global-declarations true)")
	s.send("(set-option :produce-models true)")
	if kind != "cvc5" && kind != "cvc5-int" {
		s.send(fmt.Sprintf("(set-option :timeout %d)", timeoutMS))
	} else {
		s.send("(set-logic ALL)")
	}
	out, _ := exec.Command(bin, "--version").Output()
	s.Version = strings.TrimSpace(strings.SplitN(string(out), "\n", 2)[0])
	return s, nil
}

func (s *Solver) send(line string) {
	if s.Log != nil {
		fmt.Fprintln(s.Log, line)
	}
	s.in.WriteString(line)
	s.in.WriteByte('\n')
}

func (s *Solver) Close() {
	if s.cmd != nil && !s.dead {
		s.send("(exit)")
		s.in.Flush()
		done := make(chan struct{})
		go func() { s.cmd.Wait(); close(done) }()
		select {
		case <-done:
		case <-time.After(2 * time.Second):
			s.cmd.Process.Kill()
		}
		s.dead = true
	}
}

// define emits define-fun for all not-yet-defined non-leaf subterms of t.
func (s *Solver) define(t *Term) {
	if t.Op == OpConst {
		return
	}
	if s.defined[t.id] {
		return
	}
	// iterative post-order
	type item struct {
		t *Term
		i int
	}
	st := []item{{t, 0}}
	for len(st) > 0 {
		top := &st[len(st)-1]
		x := top.t
		if s.defined[x.id] || x.Op == OpConst {
			st = st[:len(st)-1]
			continue
		}
		if top.i < len(x.A) {
			a := x.A[top.i]
			top.i++
			if a.Op != OpConst && !s.defined[a.id] {
				st = append(st, item{a, 0})
			}
			continue
		}
		if x.Op == OpVar {
			s.send(fmt.Sprintf("(declare-const %s %s)", x.Name, sortName(x.W)))
		} else {
			if x.Op == OpUF && !s.ufDecl[x.Name] {
				var sb strings.Builder
				for _, a := range x.A {
					sb.WriteString(sortName(a.W) + " ")
				}
				s.send(fmt.Sprintf("(declare-fun %s (%s) %s)", x.Name, sb.String(), sortName(x.W)))
				s.ufDecl[x.Name] = true
			}
			s.send(fmt.Sprintf("(define-fun t%d () %s %s)", x.id, sortName(x.W), x.body()))
		}
		s.defined[x.id] = true
		st = st[:len(st)-1]
	}
}

// sync makes the solver's assertion stack equal to pc.
func (s *Solver) sync(pc []*Term) {
	n := 0
	for n < len(pc) && n < len(s.stack) && pc[n] == s.stack[n] {
		n++
	}
	if k := len(s.stack) - n; k > 0 {
		s.send(fmt.Sprintf("(pop %d)", k))
		s.stack = s.stack[:n]
	}
	for _, t := range pc[n:] {
		s.define(t)
		s.send("(push 1)")
		s.send("(assert " + t.ref() + ")")
		s.stack = append(s.stack, t)
	}
}

func (s *Solver) readLine() (string, error) {
	for {
		l, err := s.out.ReadString('\n')
		if err != nil {
			return "", err
		}
		l = strings.TrimSpace(l)
		if l != "" {
			return l, nil
		}
	}
}

// readSexp reads one balanced s-expression (possibly spanning several lines).
func (s *Solver) readSexp() (string, error) {
	var sb strings.Builder
	depth := 0
	started := false
	for {
		c, err := s.out.ReadByte()
		if err != nil {
			return sb.String(), err
		}
		if !started {
			if c == ' ' || c == '\n' || c == '\r' || c == '\t' {
				continue
			}
			started = true
			if c != '(' {
				// atom: read to end of line
				rest, _ := s.out.ReadString('\n')
				return string(c) + strings.TrimSpace(rest), nil
			}
		}
		sb.WriteByte(c)
		if c == '(' {
			depth++
		} else if c == ')' {
			depth--
			if depth == 0 {
				return sb.String(), nil
			}
		} else if c == '"' {
			for {
				d, err := s.out.ReadByte()
				if err != nil {
					return sb.String(), err
				}
				sb.WriteByte(d)
				if d == '"' {
					break
				}
			}
		}
	}
}

// Check decides pc ∧ extra. With wantModel and a sat answer the values of
// vars are returned.
func (s *Solver) Check(pc []*Term, extra *Term, vars []*Term) (SatResult, map[int]uint64, error) {
	if s.dead {
		return Unknown, nil, fmt.Errorf("solver dead")
	}
	t0 := time.Now()
	s.sync(pc)
	if extra != nil {
		s.define(extra)
		s.send("(push 1)")
		s.send("(assert " + extra.ref() + ")")
	}
	s.send("(check-sat)")
	s.in.Flush()
	// watchdog: a solver that ignores its own time limit is killed
	done := make(chan struct{})
	go func() {
		select {
		case <-done:
		case <-time.After(time.Duration(s.TimeoutMS)*time.Millisecond*2 + 5*time.Second):
			s.cmd.Process.Kill()
		}
	}()
	line, err := s.readLine()
	close(done)
	d := time.Since(t0).Seconds()
	s.Seconds += d
	if d > s.MaxQuery {
		s.MaxQuery = d
	}
	s.Queries++
	if err != nil {
		s.dead = true
		return Unknown, nil, fmt.Errorf("solver died: %v", err)
	}
	var res SatResult
	switch {
	case line == "sat":
		res = Sat
		s.NSat++
	case line == "unsat":
		res = Unsat
		s.NUnsat++
	case line == "unknown" || line == "timeout":
		res = Unknown
		s.NUnknown++
	default:
		s.NUnknown++
		// drain possible further output is impossible to know; treat as fatal
		if extra != nil {
			s.send("(pop 1)")
		}
		return Unknown, nil, fmt.Errorf("solver said: %s", line)
	}
	var model map[int]uint64
	if res == Sat && vars != nil {
		model = map[int]uint64{}
		// only ask for variables the solver knows
		var known []*Term
		for _, v := range vars {
			if s.defined[v.id] {
				known = append(known, v)
			}
		}
		for i := 0; i < len(known); i += 200 {
			j := i + 200
			if j > len(known) {
				j = len(known)
			}
			var sb strings.Builder
			sb.WriteString("(get-value (")
			for _, v := range known[i:j] {
				sb.WriteString(v.Name + " ")
			}
			sb.WriteString("))")
			s.send(sb.String())
			s.in.Flush()
			sx, err := s.readSexp()
			if err != nil || strings.HasPrefix(sx, "(error") {
				if extra != nil {
					s.send("(pop 1)")
				}
				return Unknown, nil, fmt.Errorf("get-value failed: %s %v", sx, err)
			}
			if err := parseValues(sx, known[i:j], model); err != nil {
				if extra != nil {
					s.send("(pop 1)")
				}
				return Unknown, nil, err
			}
		}
	}
	if extra != nil {
		s.send("(pop 1)")
	}
	return res, model, nil
}

func parseValues(sx string, vars []*Term, into map[int]uint64) error {
	// ((name val) (name val) ...)
	toks := tokenize(sx)
	// toks: ( ( name val ) ( name val ) )
	byName := map[string]*Term{}
	for _, v := range vars {
		byName[v.Name] = v
	}
	i := 0
	if i < len(toks) && toks[i] == "(" {
		i++
	}
	for i < len(toks) {
		if toks[i] == ")" {
			break
		}
		if toks[i] != "(" {
			return fmt.Errorf("parse model: unexpected %q in %s", toks[i], sx)
		}
		name := toks[i+1]
		i += 2
		var val uint64
		switch {
		case toks[i] == "true":
			val = 1
			i++
		case toks[i] == "false":
			val = 0
			i++
		case strings.HasPrefix(toks[i], "#x"):
			v, err := strconv.ParseUint(toks[i][2:], 16, 64)
			if err != nil {
				return err
			}
			val = v
			i++
		case strings.HasPrefix(toks[i], "#b"):
			v, err := strconv.ParseUint(toks[i][2:], 2, 64)
			if err != nil {
				return err
			}
			val = v
			i++
		case toks[i] == "(" && toks[i+1] == "_" && strings.HasPrefix(toks[i+2], "bv"):
			v, err := strconv.ParseUint(toks[i+2][2:], 10, 64)
			if err != nil {
				return err
			}
			val = v
			i += 5
		default:
			return fmt.Errorf("parse model: value %q", toks[i])
		}
		if toks[i] != ")" {
			return fmt.Errorf("parse model: expected ) got %q", toks[i])
		}
		i++
		if v, ok := byName[name]; ok {
			into[v.id] = val
		}
	}
	return nil
}

func tokenize(s string) []string {
	var toks []string
	i := 0
	for i < len(s) {
		c := s[i]
		switch {
		case c == '(' || c == ')':
			toks = append(toks, string(c))
			i++
		case c == ' ' || c == '\n' || c == '\t' || c == '\r':
			i++
		case c == '|':
			j := i + 1
			for j < len(s) && s[j] != '|' {
				j++
			}
			toks = append(toks, s[i+1:j])
			i = j + 1
		default:
			j := i
			for j < len(s) && !strings.ContainsRune("() \n\t\r", rune(s[j])) {
				j++
			}
			toks = append(toks, s[i:j])
			i = j
		}
	}
	return toks
}

// Script renders pc ∧ extra as a stand-alone SMT-LIB2 script (used for
// cross-checking an assertion query on a second solver).
func Script(pc []*Term, extra *Term) string {
	var sb strings.Builder
	defined := map[int]bool{}
	ufd := map[string]bool{}
	var def func(t *Term)
	def = func(t *Term) {
		if t.Op == OpConst || defined[t.id] {
			return
		}
		for _, a := range t.A {
			def(a)
		}
		if t.Op == OpVar {
			fmt.Fprintf(&sb, "(declare-const %s %s)\n", t.Name, sortName(t.W))
		} else {
			if t.Op == OpUF && !ufd[t.Name] {
				var as strings.Builder
				for _, a := range t.A {
					as.WriteString(sortName(a.W) + " ")
				}
				fmt.Fprintf(&sb, "(declare-fun %s (%s) %s)\n", t.Name, as.String(), sortName(t.W))
				ufd[t.Name] = true
			}
			fmt.Fprintf(&sb, "(define-fun t%d () %s %s)\n", t.id, sortName(t.W), t.body())
		}
		defined[t.id] = true
	}
	all := append([]*Term(nil), pc...)
	if extra != nil {
		all = append(all, extra)
	}
	for _, t := range all {
		def(t)
		fmt.Fprintf(&sb, "(assert %s)\n", t.ref())
	}
	sb.WriteString("(check-sat)\n")
	return sb.String()
}

// OneShot runs a script on a fresh solver process.
func OneShot(kind string, script string, timeoutS int) (SatResult, float64, error) {
	var cmd *exec.Cmd
	switch kind {
	case "z3", "z3-new":
		cmd = exec.Command(kind, "-in", "-smt2", fmt.Sprintf("-T:%d", timeoutS))
	case "cvc5":
		cmd = exec.Command("cvc5", "--lang=smt2", fmt.Sprintf("--tlimit=%d", timeoutS*1000))
		script = "(set-logic ALL)\n" + script
	}
	cmd.Stdin = strings.NewReader(script)
	t0 := time.Now()
	out, _ := cmd.Output()
	d := time.Since(t0).Seconds()
	o := strings.TrimSpace(string(out))
	if strings.Contains(o, "(error") {
		return Unknown, d, fmt.Errorf("solver error: %s", o)
	}
	switch {
	case strings.HasPrefix(o, "unsat"):
		return Unsat, d, nil
	case strings.HasPrefix(o, "sat"):
		return Sat, d, nil
	}
	return Unknown, d, nil
}

// Portfolio decides a stand-alone script on the secondary back ends, in order,
// returning the first decisive answer (with model values for vars when sat).
func Portfolio(pc []*Term, extra *Term, vars []*Term, timeoutS int) (SatResult, map[int]uint64, string) {
	script := Script(pc, extra)
	defined := map[int]bool{}
	var mark func(t *Term)
	mark = func(t *Term) {
		if defined[t.id] {
			return
		}
		defined[t.id] = true
		for _, a := range t.A {
			mark(a)
		}
	}
	for _, t := range pc {
		mark(t)
	}
	if extra != nil {
		mark(extra)
	}
	var known []*Term
	var sb strings.Builder
	for _, v := range vars {
		if defined[v.id] {
			known = append(known, v)
			sb.WriteString(v.Name + " ")
		}
	}
	if len(known) > 0 {
		script += "(get-value (" + sb.String() + "))\n"
	}
	type be struct {
		name string
		args []string
		pre  string
	}
	backends := []be{
		{"z3", []string{"-in", "-smt2", fmt.Sprintf("-T:%d", timeoutS)}, "(set-option :produce-models true)\n"},
		{"cvc5", []string{"--lang=smt2", "--produce-models", "--solve-bv-as-int=sum", fmt.Sprintf("--tlimit=%d", timeoutS*1000)}, "(set-logic ALL)\n"},
		{"cvc5", []string{"--lang=smt2", "--produce-models", fmt.Sprintf("--tlimit=%d", timeoutS*1000)}, "(set-logic ALL)\n"},
	}
	for _, b := range backends {
		cmd := exec.Command(b.name, b.args...)
		cmd.Stdin = strings.NewReader(b.pre + script)
		out, _ := cmd.Output()
		o := strings.TrimSpace(string(out))
		first := strings.SplitN(o, "\n", 2)[0]
		switch first {
		case "unsat":
			return Unsat, nil, b.name + " " + strings.Join(b.args[:1], "")
		case "sat":
			m := map[int]uint64{}
			if len(known) > 0 {
				rest := strings.TrimSpace(strings.TrimPrefix(o, "sat"))
				if strings.HasPrefix(rest, "(error") || parseValues(rest, known, m) != nil {
					continue
				}
			}
			return Sat, m, b.name
		}
	}
	return Unknown, nil, ""
}
