package gosym

// Bit-segment normalisation: recognises byte (dis)assembly idioms such as
// binary.LittleEndian.Uint64(b) over bytes that were produced by byte(x>>8i),
// so that re-assembled words fold back to the original term.

type seg struct {
	t *Term // nil = zero bits
	w int
}

func isShapely(t *Term) bool {
	switch t.Op {
	case OpZExt, OpConcat:
		return true
	case OpShl, OpLShr:
		return t.A[1].Op == OpConst
	case OpBOr:
		return true
	}
	return false
}

// segsOf decomposes t into segments, most significant first.
func segsOf(t *Term, depth int) []seg {
	if depth > 12 {
		return []seg{{t, t.W}}
	}
	switch t.Op {
	case OpConst:
		if t.V == 0 {
			return []seg{{nil, t.W}}
		}
	case OpZExt:
		return append([]seg{{nil, t.W - t.A[0].W}}, segsOf(t.A[0], depth+1)...)
	case OpConcat:
		return append(segsOf(t.A[0], depth+1), segsOf(t.A[1], depth+1)...)
	case OpShl:
		if t.A[1].Op == OpConst && t.A[1].V < uint64(t.W) {
			k := int(t.A[1].V)
			s := dropHigh(segsOf(t.A[0], depth+1), k)
			return append(s, seg{nil, k})
		}
	case OpLShr:
		if t.A[1].Op == OpConst && t.A[1].V < uint64(t.W) {
			k := int(t.A[1].V)
			s := dropLow(segsOf(t.A[0], depth+1), k)
			return append([]seg{{nil, k}}, s...)
		}
	}
	return []seg{{t, t.W}}
}

func subSeg(s seg, hi, lo int) seg { // bits hi..lo of the segment
	if s.t == nil {
		return seg{nil, hi - lo + 1}
	}
	return seg{Extract(s.t, hi, lo), hi - lo + 1}
}

func dropHigh(ss []seg, k int) []seg {
	for k > 0 && len(ss) > 0 {
		if ss[0].w <= k {
			k -= ss[0].w
			ss = ss[1:]
			continue
		}
		rest := subSeg(ss[0], ss[0].w-k-1, 0)
		ss = append([]seg{rest}, ss[1:]...)
		k = 0
	}
	return ss
}

func dropLow(ss []seg, k int) []seg {
	ss = append([]seg(nil), ss...)
	for k > 0 && len(ss) > 0 {
		last := ss[len(ss)-1]
		if last.w <= k {
			k -= last.w
			ss = ss[:len(ss)-1]
			continue
		}
		ss[len(ss)-1] = subSeg(last, last.w-1, k)
		k = 0
	}
	return ss
}

// orSegs merges two decompositions when they never overlap in non-zero bits.
func orSegs(a, b []seg) ([]seg, bool) {
	var out []seg
	i, j := 0, 0
	a = append([]seg(nil), a...)
	b = append([]seg(nil), b...)
	for i < len(a) && j < len(b) {
		x, y := a[i], b[j]
		w := x.w
		if y.w < w {
			w = y.w
		}
		xs, ys := x, y
		if x.w > w {
			xs = subSeg(x, x.w-1, x.w-w)
			a[i] = subSeg(x, x.w-w-1, 0)
		} else {
			i++
		}
		if y.w > w {
			ys = subSeg(y, y.w-1, y.w-w)
			b[j] = subSeg(y, y.w-w-1, 0)
		} else {
			j++
		}
		switch {
		case xs.t == nil:
			out = append(out, ys)
		case ys.t == nil:
			out = append(out, xs)
		default:
			return nil, false
		}
	}
	if i < len(a) || j < len(b) {
		return nil, false
	}
	return out, true
}

func buildSegs(ss []seg, w int) *Term {
	// merge adjacent pieces
	var m []seg
	for _, s := range ss {
		if s.w == 0 {
			continue
		}
		if len(m) > 0 {
			p := &m[len(m)-1]
			if p.t == nil && s.t == nil {
				p.w += s.w
				continue
			}
			if p.t != nil && s.t != nil {
				if p.t.Op == OpConst && s.t.Op == OpConst && p.w+s.w <= 64 {
					p.t = BV(p.w+s.w, p.t.V<<uint(s.w)|s.t.V)
					p.w += s.w
					continue
				}
				// Extract(x,h,l1) ++ Extract(x,l1-1,l2)
				px, ph, pl := extractParts(p.t)
				sx, sh, sl := extractParts(s.t)
				if px == sx && pl == sh+1 {
					p.t = Extract(px, ph, sl)
					p.w += s.w
					continue
				}
			}
		}
		m = append(m, s)
	}
	var r *Term
	for _, s := range m {
		t := s.t
		if t == nil {
			t = BV(s.w, 0)
		}
		if r == nil {
			r = t
		} else {
			r = Concat(r, t)
		}
	}
	if r == nil || r.W != w {
		return nil
	}
	return r
}

func extractParts(t *Term) (*Term, int, int) {
	if t.Op == OpExtract {
		return t.A[0], int(t.V >> 8), int(t.V & 0xff)
	}
	return t, t.W - 1, 0
}

// simplifyOr tries the segment merge for a | b.
func simplifyOr(a, b *Term) *Term {
	if !isShapely(a) && !isShapely(b) {
		return nil
	}
	sa, sb := segsOf(a, 0), segsOf(b, 0)
	if len(sa) == 1 && sa[0].t == a && len(sb) == 1 && sb[0].t == b {
		return nil
	}
	m, ok := orSegs(sa, sb)
	if !ok {
		return nil
	}
	return buildSegs(m, a.W)
}

// eqBySegments splits an equality along the segments of a concat-shaped side:
// x == (s1 ++ s2 ++ ...)  becomes  /\ extract_i(x) == s_i, where segments that
// are literally the corresponding extract of x disappear.
func eqBySegments(a, b *Term) *Term {
	c, x := a, b
	if c.Op != OpConcat {
		c, x = b, a
	}
	ss := segsOf(c, 0)
	if len(ss) < 2 {
		return nil
	}
	r := True
	hi := c.W - 1
	for _, sg := range ss {
		lo := hi - sg.w + 1
		xe := Extract(x, hi, lo)
		st := sg.t
		if st == nil {
			st = BV(sg.w, 0)
		}
		if xe != st {
			if sg.w > 8 && (xe.Op == OpConcat || st.Op == OpConcat) {
				// avoid unbounded recursion: plain equality node
				if xe.id > st.id {
					xe, st = st, xe
				}
				if xe.Op == OpConst && st.Op == OpConst {
					if xe.V != st.V {
						return False
					}
				} else {
					r = And(r, TT.mk(OpEq, 0, 0, "", xe, st))
				}
			} else {
				r = And(r, Eq(xe, st))
			}
			if r.IsFalse() {
				return False
			}
		}
		hi = lo - 1
	}
	return r
}

// ---------------------------------------------------------------------------
// Abstraction of hard arithmetic: unsigned division/remainder with a symbolic
// divisor (and symbolic x symbolic multiplication) are replaced by
// uninterpreted functions. If an assertion's negation is unsat under the
// abstraction (plus the valid lemmas already in the path condition) it is unsat
// for the real operators too; a sat answer is inconclusive and the precise
// query is asked.

var absCache = map[int]*Term{}

func hasHard(t *Term, seen map[int]bool) bool {
	if seen[t.id] {
		return false
	}
	seen[t.id] = true
	switch t.Op {
	case OpURem, OpUDiv, OpSRem, OpSDiv:
		if t.A[1].Op != OpConst {
			return true
		}
	case OpMul:
		if t.A[0].Op != OpConst && t.A[1].Op != OpConst {
			return true
		}
	}
	for _, a := range t.A {
		if hasHard(a, seen) {
			return true
		}
	}
	return false
}

func abstractHard(t *Term) *Term {
	if t.Op == OpConst || t.Op == OpVar {
		return t
	}
	if r, ok := absCache[t.id]; ok {
		return r
	}
	args := make([]*Term, len(t.A))
	changed := false
	for i, a := range t.A {
		args[i] = abstractHard(a)
		if args[i] != a {
			changed = true
		}
	}
	var r *Term
	hard := false
	switch t.Op {
	case OpURem, OpUDiv, OpSRem, OpSDiv:
		hard = t.A[1].Op != OpConst
	case OpMul:
		hard = t.A[0].Op != OpConst && t.A[1].Op != OpConst
	}
	switch {
	case hard:
		r = UF("abs_"+opNames[t.Op]+"_"+itoa(t.W), t.W, args...)
	case !changed:
		r = t
	default:
		r = rebuild(t, args)
	}
	absCache[t.id] = r
	return r
}

func itoa(i int) string {
	if i == 0 {
		return "0"
	}
	s := ""
	for i > 0 {
		s = string(rune('0'+i%10)) + s
		i /= 10
	}
	return s
}

// rebuild re-creates a term of the same operator over new arguments.
func rebuild(t *Term, a []*Term) *Term {
	switch t.Op {
	case OpNot:
		return Not(a[0])
	case OpAnd:
		return And(a[0], a[1])
	case OpOr:
		return Or(a[0], a[1])
	case OpIte:
		return Ite(a[0], a[1], a[2])
	case OpEq:
		return Eq(a[0], a[1])
	case OpConcat:
		return Concat(a[0], a[1])
	case OpExtract:
		return Extract(a[0], int(t.V>>8), int(t.V&0xff))
	case OpZExt:
		return ZExt(a[0], t.W)
	case OpSExt:
		return SExt(a[0], t.W)
	case OpBNot:
		return BNot(a[0])
	case OpNeg:
		return Neg(a[0])
	case OpFLt, OpFLe, OpFEq, OpFIsNaN, OpFIsInf:
		return FPred(t.Op, t.fw, a...)
	case OpUF:
		return UF(t.Name, t.W, a...)
	}
	return Bin(t.Op, a[0], a[1])
}
