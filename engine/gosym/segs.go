package gosym

// Bit-segment normalisation: recognises byte (dis)assembly idioms such as
// binary.LittleEndian.Uint64(b) over bytes that were produced by byte(x>>8i),
// so that re-assembled words fold back to the original term.

type seg struct {
	t *Term // nil = zero bits
	w int
}

func isShapely(t *Term) bool {
	switch t.Op {
	case OpZExt, OpConcat:
		return true
	case OpShl, OpLShr:
		return t.A[1].Op == OpConst
	case OpBOr:
		return true
	}
	return false
}

// segsOf decomposes t into segments, most significant first.
func segsOf(t *Term, depth int) []seg {
	if depth > 12 {
		return []seg{{t, t.W}}
	}
	switch t.Op {
	case OpConst:
		if t.V == 0 {
			return []seg{{nil, t.W}}
		}
	case OpZExt:
		return append([]seg{{nil, t.W - t.A[0].W}}, segsOf(t.A[0], depth+1)...)
	case OpConcat:
		return append(segsOf(t.A[0], depth+1), segsOf(t.A[1], depth+1)...)
	case OpShl:
		if t.A[1].Op == OpConst && t.A[1].V < uint64(t.W) {
			k := int(t.A[1].V)
			s := dropHigh(segsOf(t.A[0], depth+1), k)
			return append(s, seg{nil, k})
		}
	case OpLShr:
		if t.A[1].Op == OpConst && t.A[1].V < uint64(t.W) {
			k := int(t.A[1].V)
			s := dropLow(segsOf(t.A[0], depth+1), k)
			return append([]seg{{nil, k}}, s...)
		}
	}
	return []seg{{t, t.W}}
}

func subSeg(s seg, hi, lo int) seg { // bits hi..lo of the segment
	if s.t == nil {
		return seg{nil, hi - lo + 1}
	}
	return seg{Extract(s.t, hi, lo), hi - lo + 1}
}

func dropHigh(ss []seg, k int) []seg {
	for k > 0 && len(ss) > 0 {
		if ss[0].w <= k {
			k -= ss[0].w
			ss = ss[1:]
			continue
		}
		rest := subSeg(ss[0], ss[0].w-k-1, 0)
		ss = append([]seg{rest}, ss[1:]...)
		k = 0
	}
	return ss
}

func dropLow(ss []seg, k int) []seg {
	ss = append([]seg(nil), ss...)
	for k > 0 && len(ss) > 0 {
		last := ss[len(ss)-1]
		if last.w <= k {
			k -= last.w
			ss = ss[:len(ss)-1]
			continue
		}
		ss[len(ss)-1] = subSeg(last, last.w-1, k)
		k = 0
	}
	return ss
}

// orSegs merges two decompositions when they never overlap in non-zero bits.
func orSegs(a, b []seg) ([]seg, bool) {
	var out []seg
	i, j := 0, 0
	a = append([]seg(nil), a...)
	b = append([]seg(nil), b...)
	for i < len(a) && j < len(b) {
		x, y := a[i], b[j]
		w := x.w
		if y.w < w {
			w = y.w
		}
		xs, ys := x, y
		if x.w > w {
			xs = subSeg(x, x.w-1, x.w-w)
			a[i] = subSeg(x, x.w-w-1, 0)
		} else {
			i++
		}
		if y.w > w {
			ys = subSeg(y, y.w-1, y.w-w)
			b[j] = subSeg(y, y.w-w-1, 0)
		} else {
			j++
		}
		switch {
		case xs.t == nil:
			out = append(out, ys)
		case ys.t == nil:
			out = append(out, xs)
		default:
			return nil, false
		}
	}
	if i < len(a) || j < len(b) {
		return nil, false
	}
	return out, true
}

func buildSegs(ss []seg, w int) *Term {
	// merge adjacent pieces
	var m []seg
	for _, s := range ss {
		if s.w == 0 {
			continue
		}
		if len(m) > 0 {
			p := &m[len(m)-1]
			if p.t == nil && s.t == nil {
				p.w += s.w
				continue
			}
			if p.t != nil && s.t != nil {
				if p.t.Op == OpConst && s.t.Op == OpConst && p.w+s.w <= 64 {
					p.t = BV(p.w+s.w, p.t.V<<uint(s.w)|s.t.V)
					p.w += s.w
					continue
				}
				// Extract(x,h,l1) ++ Extract(x,l1-1,l2)
				px, ph, pl := extractParts(p.t)
				sx, sh, sl := extractParts(s.t)
				if px == sx && pl == sh+1 {
					p.t = Extract(px, ph, sl)
					p.w += s.w
					continue
				}
			}
		}
		m = append(m, s)
	}
	var r *Term
	for _, s := range m {
		t := s.t
		if t == nil {
			t = BV(s.w, 0)
		}
		if r == nil {
			r = t
		} else {
			r = Concat(r, t)
		}
	}
	if r == nil || r.W != w {
		return nil
	}
	return r
}

func extractParts(t *Term) (*Term, int, int) {
	if t.Op == OpExtract {
		return t.A[0], int(t.V >> 8), int(t.V & 0xff)
	}
	return t, t.W - 1, 0
}

// simplifyOr tries the segment merge for a | b.
func simplifyOr(a, b *Term) *Term {
	if !isShapely(a) && !isShapely(b) {
		return nil
	}
	sa, sb := segsOf(a, 0), segsOf(b, 0)
	if len(sa) == 1 && sa[0].t == a && len(sb) == 1 && sb[0].t == b {
		return nil
	}
	m, ok := orSegs(sa, sb)
	if !ok {
		return nil
	}
	return buildSegs(m, a.W)
}

// eqBySegments splits an equality along the segments of a concat-shaped side:
// x == (s1 ++ s2 ++ ...)  becomes  /\ extract_i(x) == s_i, where segments that
// are literally the corresponding extract of x disappear.
func eqBySegments(a, b *Term) *Term {
	c, x := a, b
	if c.Op != OpConcat {
		c, x = b, a
	}
	ss := segsOf(c, 0)
	if len(ss) < 2 {
		return nil
	}
	r := True
	hi := c.W - 1
	for _, sg := range ss {
		lo := hi - sg.w + 1
		xe := Extract(x, hi, lo)
		st := sg.t
		if st == nil {
			st = BV(sg.w, 0)
		}
		if xe != st {
			if sg.w > 8 && (xe.Op == OpConcat || st.Op == OpConcat) {
				// avoid unbounded recursion: plain equality node
				if xe.id > st.id {
					xe, st = st, xe
				}
				if xe.Op == OpConst && st.Op == OpConst {
					if xe.V != st.V {
						return False
					}
				} else {
					r = And(r, TT.mk(OpEq, 0, 0, "", xe, st))
				}
			} else {
				r = And(r, Eq(xe, st))
			}
			if r.IsFalse() {
				return False
			}
		}
		hi = lo - 1
	}
	return r
}
