package gosym

import (
	"go/types"

	"golang.org/x/tools/go/ssa"
)

type waiter struct {
	g      *G
	isSend bool
	val    Value
	sel    *selWait
	caseIx int
	done   bool
	recvd  Value
	ok     bool
	closedPanic bool
}

type selWait struct {
	fired  bool
	caseIx int
	recvd  Value
	ok     bool
	closedPanic bool
}

type chanState struct {
	buf    []Value
	closed bool
	sendq  []*waiter
	recvq  []*waiter
}

type ChanObj struct {
	chanState
	cap   int
	et    types.Type
	epoch int
	saved bool
	id    int
}

func (e *Engine) newChan(n int, et types.Type) *ChanObj {
	c := &ChanObj{cap: n, et: et, epoch: e.epoch, id: e.nextObj}
	e.nextObj++
	return c
}

func (e *Engine) chanTouch(c *ChanObj) {
	if c.epoch < e.epoch && !c.saved {
		st := c.chanState
		st.buf = append([]Value(nil), st.buf...)
		st.sendq = append([]*waiter(nil), st.sendq...)
		st.recvq = append([]*waiter(nil), st.recvq...)
		e.journal = append(e.journal, journalEntry{ch: c, chs: st})
		c.saved = true
	}
}

func (w *waiter) live() bool {
	if w.done {
		return false
	}
	if w.sel != nil && w.sel.fired {
		return false
	}
	return true
}

func firstLive(q *[]*waiter) *waiter {
	for len(*q) > 0 {
		w := (*q)[0]
		if w.live() {
			return w
		}
		*q = (*q)[1:]
	}
	return nil
}

func (w *waiter) complete(v Value, ok bool, closedPanic bool) {
	w.done = true
	w.recvd, w.ok, w.closedPanic = v, ok, closedPanic
	if w.sel != nil {
		w.sel.fired = true
		w.sel.caseIx = w.caseIx
		w.sel.recvd, w.sel.ok, w.sel.closedPanic = v, ok, closedPanic
	}
}

// trySend attempts a send without blocking.
func (e *Engine) trySend(c *ChanObj, v Value) (done bool) {
	if c.closed {
		e.goPanicRuntime("send on closed channel")
	}
	if r := firstLive(&c.recvq); r != nil {
		e.chanTouch(c)
		c.recvq = c.recvq[1:]
		r.complete(v, true, false)
		return true
	}
	if len(c.buf) < c.cap {
		e.chanTouch(c)
		c.buf = append(c.buf, v)
		return true
	}
	return false
}

func (e *Engine) sendReady(c *ChanObj) bool {
	if c == nil {
		return false
	}
	return c.closed || firstLive(&c.recvq) != nil || len(c.buf) < c.cap
}

func (e *Engine) recvReady(c *ChanObj) bool {
	if c == nil {
		return false
	}
	return len(c.buf) > 0 || firstLive(&c.sendq) != nil || c.closed
}

func (e *Engine) tryRecv(c *ChanObj) (v Value, ok bool, done bool) {
	if len(c.buf) > 0 {
		e.chanTouch(c)
		v = c.buf[0]
		c.buf = c.buf[1:]
		if s := firstLive(&c.sendq); s != nil {
			c.sendq = c.sendq[1:]
			c.buf = append(c.buf, s.val)
			s.complete(nil, true, false)
		}
		return v, true, true
	}
	if s := firstLive(&c.sendq); s != nil {
		e.chanTouch(c)
		c.sendq = c.sendq[1:]
		s.complete(nil, true, false)
		return s.val, true, true
	}
	if c.closed {
		return zeroValue(c.et), false, true
	}
	return nil, false, false
}

func (e *Engine) closeChan(c *ChanObj) {
	if c == nil {
		e.goPanicRuntime("close of nil channel")
	}
	if c.closed {
		e.goPanicRuntime("close of closed channel")
	}
	e.chanTouch(c)
	c.closed = true
	for _, r := range c.recvq {
		if r.live() {
			r.complete(zeroValue(c.et), false, false)
		}
	}
	c.recvq = nil
	for _, s := range c.sendq {
		if s.live() {
			s.complete(nil, false, true)
		}
	}
	c.sendq = nil
}

func (e *Engine) doSend(g *G, fr *Frame, in *ssa.Send) bool {
	if e.schedPoint(g) {
		return true
	}
	c := e.get(fr, in.Chan).(*ChanObj)
	v := e.get(fr, in.X)
	if c == nil {
		e.block(g, "send on nil chan", func() bool { return false }, nil)
		return true
	}
	if e.trySend(c, v) {
		fr.pc++
		return false
	}
	w := &waiter{g: g, isSend: true, val: v}
	e.chanTouch(c)
	c.sendq = append(c.sendq, w)
	e.block(g, "chan send", func() bool { return w.done }, func() {
		if w.closedPanic {
			e.resumePanic(g, "send on closed channel")
			return
		}
		fr.pc++
	})
	return true
}

func (e *Engine) resumePanic(g *G, msg string) {
	func() {
		defer func() {
			if r := recover(); r != nil {
				if ps, ok := r.(goPanicSignal); ok {
					e.startPanic(g, ps.val, ps.msg)
					return
				}
				panic(r)
			}
		}()
		e.goPanicRuntime(msg)
	}()
}

func (e *Engine) doRecv(g *G, fr *Frame, in *ssa.UnOp) bool {
	if e.schedPoint(g) {
		return true
	}
	c := e.get(fr, in.X).(*ChanObj)
	fin := func(v Value, ok bool) {
		if in.CommaOk {
			fr.env[in] = Tuple{v, Bool(ok)}
		} else {
			fr.env[in] = v
		}
		fr.pc++
	}
	if c == nil {
		e.block(g, "recv on nil chan", func() bool { return false }, nil)
		return true
	}
	if v, ok, done := e.tryRecv(c); done {
		fin(v, ok)
		return false
	}
	w := &waiter{g: g}
	e.chanTouch(c)
	c.recvq = append(c.recvq, w)
	e.block(g, "chan recv", func() bool { return w.done }, func() { fin(w.recvd, w.ok) })
	return true
}

func (e *Engine) doSelect(g *G, fr *Frame, in *ssa.Select) bool {
	if e.schedPoint(g) {
		return true
	}
	type st struct {
		c *ChanObj
		v Value
	}
	states := make([]st, len(in.States))
	var ready []int
	for i, s := range in.States {
		c := e.get(fr, s.Chan).(*ChanObj)
		states[i].c = c
		if s.Dir == types.SendOnly {
			states[i].v = e.get(fr, s.Send)
			if e.sendReady(c) {
				ready = append(ready, i)
			}
		} else if e.recvReady(c) {
			ready = append(ready, i)
		}
	}
	fin := func(ix int, recvd Value, ok bool) {
		t := Tuple{BV(64, uint64(int64(ix))), Bool(ok)}
		for i, s := range in.States {
			if s.Dir == types.RecvOnly {
				if i == ix && recvd != nil {
					t = append(t, recvd)
				} else {
					t = append(t, zeroValue(s.Chan.Type().Underlying().(*types.Chan).Elem()))
				}
			}
		}
		fr.env[in] = t
		fr.pc++
	}
	if len(ready) > 0 {
		k := ready[e.choose(len(ready))]
		if in.States[k].Dir == types.SendOnly {
			if !e.trySend(states[k].c, states[k].v) {
				panic("internal: ready send failed")
			}
			fin(k, nil, false)
		} else {
			v, ok, done := e.tryRecv(states[k].c)
			if !done {
				panic("internal: ready recv failed")
			}
			fin(k, v, ok)
		}
		return false
	}
	if !in.Blocking {
		fin(-1, nil, false)
		return false
	}
	sw := &selWait{}
	any := false
	for i, s := range in.States {
		c := states[i].c
		if c == nil {
			continue
		}
		any = true
		w := &waiter{g: g, sel: sw, caseIx: i}
		e.chanTouch(c)
		if s.Dir == types.SendOnly {
			w.isSend = true
			w.val = states[i].v
			c.sendq = append(c.sendq, w)
		} else {
			c.recvq = append(c.recvq, w)
		}
	}
	if !any {
		g.parkOK = true
		e.block(g, "select{}", func() bool { return false }, nil)
		return true
	}
	e.block(g, "select", func() bool { return sw.fired }, func() {
		if sw.closedPanic {
			e.resumePanic(g, "send on closed channel")
			return
		}
		if in.States[sw.caseIx].Dir == types.SendOnly {
			fin(sw.caseIx, nil, false)
		} else {
			fin(sw.caseIx, sw.recvd, sw.ok)
		}
	})
	return true
}
