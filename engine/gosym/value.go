package gosym

import (
	"fmt"
	"go/types"
	"strings"

	"golang.org/x/tools/go/ssa"
)

// Value is one of: *Term (bool, integers, floats as IEEE bits), Str, Ptr,
// Slice, Iface, *Closure, *MapObj, *ChanObj, Agg (flat struct/array value),
// Tuple, *RangeIter.
type Value interface{}

// Str is an immutable string: concrete (sym==nil) or a vector of byte terms.
type Str struct {
	s   string
	sym []*Term
}

func (s Str) Len() int {
	if s.sym != nil {
		return len(s.sym)
	}
	return len(s.s)
}

func (s Str) At(i int) *Term {
	if s.sym != nil {
		return s.sym[i]
	}
	return BV(8, uint64(s.s[i]))
}

func (s Str) Concrete() bool { return s.sym == nil }

func (s Str) Sub(lo, hi int) Str {
	if s.sym != nil {
		return mkStr(s.sym[lo:hi])
	}
	return Str{s: s.s[lo:hi]}
}

func (s Str) Terms() []*Term {
	if s.sym != nil {
		return s.sym
	}
	r := make([]*Term, len(s.s))
	for i := 0; i < len(s.s); i++ {
		r[i] = BV(8, uint64(s.s[i]))
	}
	return r
}

func mkStr(ts []*Term) Str {
	allc := true
	for _, t := range ts {
		if t.Op != OpConst {
			allc = false
			break
		}
	}
	if allc {
		b := make([]byte, len(ts))
		for i, t := range ts {
			b[i] = byte(t.V)
		}
		return Str{s: string(b)}
	}
	return Str{sym: ts}
}

func (s Str) String() string {
	if s.sym == nil {
		return s.s
	}
	var sb strings.Builder
	for _, t := range s.sym {
		if t.Op == OpConst {
			sb.WriteByte(byte(t.V))
		} else {
			sb.WriteString("‹" + t.String() + "›")
		}
	}
	return sb.String()
}

// Obj is a heap object: a flat vector of one-cell values.
type Obj struct {
	cells  []Value
	n      int
	pages  [][]Value // when cells == nil: pages of pageSize cells, nil = all zero
	zero   Value
	global bool // storage of a package-level variable
	epoch  int
	id     int
	typ    types.Type
}

// Ptr is a pointer into an object (cell offset). A nil pointer has obj==nil.
// With sym != nil the effective offset is off + sym*stride, 0 <= sym < count.
type Ptr struct {
	obj    *Obj
	off    int
	sym    *Term
	stride int
	count  int
	fn     *Closure // pointer-shaped func values never occur; unused
}

func (p Ptr) IsNil() bool { return p.obj == nil }

// Slice refers to a window of an object. off/len/cap are in elements; esz is
// the number of cells per element.
type Slice struct {
	obj *Obj
	off int // in cells
	len int
	cap int
	esz int
}

func (s Slice) IsNil() bool { return s.obj == nil }

type Iface struct {
	t types.Type
	v Value
}

func (i Iface) IsNil() bool { return i.t == nil }

type Closure struct {
	fn    *ssa.Function
	free  []Value
	bi    *ssa.Builtin
	stub  string // engine-native function standing in (by name)
	bound []Value
}

type Agg []Value

type Tuple []Value

type mapEntry struct {
	k, v Value
	live bool
}

type MapObj struct {
	entries []mapEntry
	idx     map[interface{}]int
	hasSym  bool
	epoch   int
	saved   bool
	id      int
	kt, vt  types.Type
}

type RangeIter struct {
	m    *MapObj
	keys []mapEntry
	s    Str
	i    int
	isS  bool
}

// ---------------------------------------------------------------------------
// type layout

type layout struct {
	size    int
	offsets []int // struct field offsets
}

var layoutCache = map[types.Type]*layout{}

func flatSize(t types.Type) int { return layoutOf(t).size }

func layoutOf(t types.Type) *layout {
	if l, ok := layoutCache[t]; ok {
		return l
	}
	var l *layout
	switch u := t.Underlying().(type) {
	case *types.Struct:
		l = &layout{}
		for i := 0; i < u.NumFields(); i++ {
			l.offsets = append(l.offsets, l.size)
			l.size += flatSize(u.Field(i).Type())
		}
	case *types.Array:
		l = &layout{size: int(u.Len()) * flatSize(u.Elem())}
	case *types.Tuple:
		l = &layout{size: 1}
	default:
		l = &layout{size: 1}
	}
	layoutCache[t] = l
	return l
}

func isAgg(t types.Type) bool {
	switch t.Underlying().(type) {
	case *types.Struct, *types.Array:
		return true
	}
	return false
}

func bitWidth(t types.Type) int {
	b, ok := t.Underlying().(*types.Basic)
	if !ok {
		return -1
	}
	switch b.Kind() {
	case types.Bool, types.UntypedBool:
		return 0
	case types.Int8, types.Uint8:
		return 8
	case types.Int16, types.Uint16:
		return 16
	case types.Int32, types.Uint32, types.Float32, types.UntypedRune:
		return 32
	case types.Int, types.Uint, types.Int64, types.Uint64, types.Uintptr, types.Float64, types.UntypedInt, types.UntypedFloat:
		return 64
	case types.UnsafePointer:
		return -2
	}
	return -1
}

func isSigned(t types.Type) bool {
	b, ok := t.Underlying().(*types.Basic)
	return ok && b.Info()&types.IsInteger != 0 && b.Info()&types.IsUnsigned == 0
}

func isFloat(t types.Type) bool {
	b, ok := t.Underlying().(*types.Basic)
	return ok && b.Info()&types.IsFloat != 0
}

func isInteger(t types.Type) bool {
	b, ok := t.Underlying().(*types.Basic)
	return ok && b.Info()&types.IsInteger != 0
}

func isString(t types.Type) bool {
	b, ok := t.Underlying().(*types.Basic)
	return ok && b.Info()&types.IsString != 0
}

// zeroCell returns the zero value for a one-cell type.
func zeroCell(t types.Type) Value {
	switch u := t.Underlying().(type) {
	case *types.Basic:
		if u.Info()&types.IsString != 0 {
			return Str{}
		}
		if u.Kind() == types.UnsafePointer {
			return Ptr{}
		}
		if u.Kind() == types.UntypedNil {
			return Iface{}
		}
		w := bitWidth(t)
		if w == 0 {
			return False
		}
		if w < 0 {
			panic(pathEnd{kind: endUnsupported, msg: "zero of basic type " + t.String()})
		}
		return BV(w, 0)
	case *types.Pointer:
		return Ptr{}
	case *types.Slice:
		return Slice{}
	case *types.Map:
		return (*MapObj)(nil)
	case *types.Chan:
		return (*ChanObj)(nil)
	case *types.Signature:
		return (*Closure)(nil)
	case *types.Interface:
		return Iface{}
	case *types.Tuple:
		r := make(Tuple, u.Len())
		for i := range r {
			r[i] = zeroValue(u.At(i).Type())
		}
		return r
	}
	panic(pathEnd{kind: endUnsupported, msg: "zero of type " + t.String()})
}

func fillZero(t types.Type, into []Value) {
	switch u := t.Underlying().(type) {
	case *types.Struct:
		l := layoutOf(t)
		for i := 0; i < u.NumFields(); i++ {
			ft := u.Field(i).Type()
			fillZero(ft, into[l.offsets[i]:l.offsets[i]+flatSize(ft)])
		}
	case *types.Array:
		es := flatSize(u.Elem())
		n := int(u.Len())
		if n == 0 {
			return
		}
		if es == 1 && !isAgg(u.Elem()) {
			z := zeroCell(u.Elem())
			for i := 0; i < n; i++ {
				into[i] = z
			}
			return
		}
		fillZero(u.Elem(), into[:es])
		for i := 1; i < n; i++ {
			copy(into[i*es:(i+1)*es], into[:es])
		}
	default:
		into[0] = zeroCell(t)
	}
}

func zeroValue(t types.Type) Value {
	if isAgg(t) {
		a := make(Agg, flatSize(t))
		fillZero(t, a)
		return a
	}
	return zeroCell(t)
}

// ---------------------------------------------------------------------------
// heap

const sparseThreshold = 1 << 18

func (e *Engine) newObj(t types.Type) *Obj {
	if at, ok := t.Underlying().(*types.Array); ok && at.Len() > sparseThreshold && flatSize(at.Elem()) == 1 && !isAgg(at.Elem()) {
		// make([]T, constant) is lowered to new([N]T): large scalar arrays live in paged objects
		o := e.newArrayObj(at.Elem(), int(at.Len()))
		o.typ = t
		return o
	}
	n := flatSize(t)
	o := &Obj{n: n, epoch: e.epoch, id: e.nextObj, typ: t}
	e.nextObj++
	o.cells = make([]Value, n)
	fillZero(t, o.cells)
	return o
}

// newArrayObj allocates n elements of type et.
func (e *Engine) newArrayObj(et types.Type, n int) *Obj {
	es := flatSize(et)
	o := &Obj{n: n * es, epoch: e.epoch, id: e.nextObj, typ: et}
	e.nextObj++
	if n*es > sparseThreshold && es == 1 && !isAgg(et) {
		o.pages = make([][]Value, (n*es+pageSize-1)/pageSize)
		o.zero = zeroCell(et)
		return o
	}
	if n*es > 1<<26 {
		panic(pathEnd{kind: endUnsupported, msg: fmt.Sprintf("allocation of %d cells", n*es)})
	}
	o.cells = make([]Value, n*es)
	if n > 0 {
		if es == 1 && !isAgg(et) {
			z := zeroCell(et)
			for i := range o.cells {
				o.cells[i] = z
			}
		} else {
			fillZero(et, o.cells[:es])
			for i := 1; i < n; i++ {
				copy(o.cells[i*es:(i+1)*es], o.cells[:es])
			}
		}
	}
	return o
}

func (o *Obj) get(i int) Value {
	if i < 0 || i >= o.n {
		panic(fmt.Sprintf("internal: cell %d out of %d", i, o.n))
	}
	if o.cells != nil {
		return o.cells[i]
	}
	if pg := o.pages[i>>pageBits]; pg != nil {
		return pg[i&(pageSize-1)]
	}
	return o.zero
}

const pageBits = 12
const pageSize = 1 << pageBits

// put stores without journaling (fresh objects and undo)
func (o *Obj) put(i int, v Value) {
	if o.cells != nil {
		o.cells[i] = v
		return
	}
	pg := o.pages[i>>pageBits]
	if pg == nil {
		if sameValue(v, o.zero) {
			return
		}
		pg = make([]Value, pageSize)
		for k := range pg {
			pg[k] = o.zero
		}
		o.pages[i>>pageBits] = pg
	}
	pg[i&(pageSize-1)] = v
}

type journalEntry struct {
	o   *Obj
	i   int
	old Value
	had bool
	m   *MapObj
	me  []mapEntry
	ch  *ChanObj
	chs chanState
}

func (e *Engine) set(o *Obj, i int, v Value) {
	if i < 0 || i >= o.n {
		panic(fmt.Sprintf("internal: cell %d out of %d", i, o.n))
	}
	if o.epoch < e.epoch {
		e.journal = append(e.journal, journalEntry{o: o, i: i, old: o.get(i), had: true})
	}
	o.put(i, v)
}

func (e *Engine) undoJournal() {
	for k := len(e.journal) - 1; k >= 0; k-- {
		j := e.journal[k]
		switch {
		case j.o != nil:
			j.o.put(j.i, j.old)
		case j.m != nil:
			j.m.entries = j.me
			j.m.saved = false
			j.m.rebuild()
		case j.ch != nil:
			j.ch.chanState = j.chs
		}
	}
	e.journal = e.journal[:0]
}

// load reads a value of type t at p (p concrete offset).
func (e *Engine) loadAt(o *Obj, off int, t types.Type) Value {
	n := flatSize(t)
	if isAgg(t) {
		a := make(Agg, n)
		if o.cells != nil {
			copy(a, o.cells[off:off+n])
		} else {
			for i := 0; i < n; i++ {
				a[i] = o.get(off + i)
			}
		}
		return a
	}
	v := o.get(off)
	return v
}

func (e *Engine) storeAt(o *Obj, off int, t types.Type, v Value) {
	if isAgg(t) {
		a := v.(Agg)
		for i, c := range a {
			e.set(o, off+i, c)
		}
		return
	}
	e.set(o, off, v)
}

func (e *Engine) load(p Ptr, t types.Type) Value {
	if p.obj == nil {
		e.goPanicRuntime("invalid memory address or nil pointer dereference")
	}
	if p.sym == nil {
		return e.loadAt(p.obj, p.off, t)
	}
	// mux over candidates
	vs := make([]Value, p.count)
	for i := 0; i < p.count; i++ {
		vs[i] = e.loadAt(p.obj, p.off+i*p.stride, t)
	}
	return e.muxValues(p.sym, vs)
}

func (e *Engine) store(p Ptr, t types.Type, v Value) {
	if p.obj == nil {
		e.goPanicRuntime("invalid memory address or nil pointer dereference")
	}
	if p.sym == nil {
		e.storeAt(p.obj, p.off, t, v)
		return
	}
	for i := 0; i < p.count; i++ {
		old := e.loadAt(p.obj, p.off+i*p.stride, t)
		nv := e.iteValue(Eq(p.sym, BV(p.sym.W, uint64(i))), v, old)
		e.storeAt(p.obj, p.off+i*p.stride, t, nv)
	}
}

// iteValue merges two values of the same shape under condition c. Values that
// cannot be merged symbolically (pointers, different lengths…) force a fork.
func (e *Engine) iteValue(c *Term, a, b Value) Value {
	if c.IsTrue() {
		return a
	}
	if c.IsFalse() {
		return b
	}
	switch x := a.(type) {
	case *Term:
		return Ite(c, x, b.(*Term))
	case Agg:
		y := b.(Agg)
		r := make(Agg, len(x))
		for i := range x {
			r[i] = e.iteValue(c, x[i], y[i])
		}
		return r
	case Str:
		y := b.(Str)
		if x.Len() == y.Len() {
			if x.Concrete() && y.Concrete() && x.s == y.s {
				return x
			}
			ts := make([]*Term, x.Len())
			for i := range ts {
				ts[i] = Ite(c, x.At(i), y.At(i))
			}
			return mkStr(ts)
		}
	}
	if valuesIdentical(a, b) {
		return a
	}
	if e.branch(c) {
		return a
	}
	return b
}

func valuesIdentical(a, b Value) bool {
	switch x := a.(type) {
	case *Term:
		y, ok := b.(*Term)
		return ok && x == y
	case Ptr:
		y, ok := b.(Ptr)
		return ok && x.obj == y.obj && x.off == y.off && x.sym == y.sym
	case Slice:
		y, ok := b.(Slice)
		return ok && x == y
	case *MapObj:
		y, ok := b.(*MapObj)
		return ok && x == y
	case *ChanObj:
		y, ok := b.(*ChanObj)
		return ok && x == y
	case *Closure:
		y, ok := b.(*Closure)
		return ok && x == y
	case Iface:
		y, ok := b.(Iface)
		if !ok {
			return false
		}
		if x.t == nil || y.t == nil {
			return x.t == nil && y.t == nil
		}
		return types.Identical(x.t, y.t) && valuesIdentical(x.v, y.v)
	case Str:
		y, ok := b.(Str)
		if !ok || x.Len() != y.Len() {
			return false
		}
		if x.Concrete() && y.Concrete() {
			return x.s == y.s
		}
		for i := 0; i < x.Len(); i++ {
			if x.At(i) != y.At(i) {
				return false
			}
		}
		return true
	}
	return false
}

// ---------------------------------------------------------------------------
// maps

func (e *Engine) newMap(kt, vt types.Type) *MapObj {
	m := &MapObj{idx: map[interface{}]int{}, epoch: e.epoch, id: e.nextObj, kt: kt, vt: vt}
	e.nextObj++
	return m
}

func (m *MapObj) rebuild() {
	m.idx = map[interface{}]int{}
	m.hasSym = false
	for i, en := range m.entries {
		if !en.live {
			continue
		}
		if nk, ok := nativeKey(en.k); ok {
			m.idx[nk] = i
		} else {
			m.hasSym = true
		}
	}
}

func (e *Engine) mapTouch(m *MapObj) {
	if m.epoch < e.epoch && !m.saved {
		e.journal = append(e.journal, journalEntry{m: m, me: append([]mapEntry(nil), m.entries...)})
		m.saved = true
	}
}

type nkTerm struct {
	w int
	v uint64
}
type nkPtr struct {
	o   *Obj
	off int
}

// nativeKey maps a fully concrete key value to a Go comparable.
func nativeKey(v Value) (interface{}, bool) {
	switch x := v.(type) {
	case *Term:
		if x.Op == OpConst {
			return nkTerm{x.W, x.V}, true
		}
		return nil, false
	case Str:
		if x.Concrete() {
			return x.s, true
		}
		return nil, false
	case Ptr:
		if x.sym != nil {
			return nil, false
		}
		return nkPtr{x.obj, x.off}, true
	case Iface:
		if x.t == nil {
			return "<nil-iface>", true
		}
		k, ok := nativeKey(x.v)
		if !ok {
			return nil, false
		}
		return fmt.Sprintf("%s|%v", x.t.String(), k), true
	case Agg:
		var sb strings.Builder
		for _, c := range x {
			k, ok := nativeKey(c)
			if !ok {
				return nil, false
			}
			fmt.Fprintf(&sb, "%v;", k)
		}
		return sb.String(), true
	case *ChanObj:
		return x, true
	case *MapObj:
		return x, true
	case *Closure:
		return x, true
	}
	return nil, false
}

// mapFind returns the index of the entry whose key equals k (forking on
// symbolic comparisons) or -1.
func (e *Engine) mapFind(m *MapObj, k Value) int {
	if m == nil {
		return -1
	}
	nk, conc := nativeKey(k)
	if conc && !m.hasSym {
		if i, ok := m.idx[nk]; ok {
			return i
		}
		return -1
	}
	for i := range m.entries {
		if !m.entries[i].live {
			continue
		}
		c := e.valuesEqual(m.entries[i].k, k)
		if c.IsTrue() {
			return i
		}
		if c.IsFalse() {
			continue
		}
		if e.branch(c) {
			return i
		}
	}
	return -1
}

func (e *Engine) mapLookup(m *MapObj, k Value) (Value, bool) {
	i := e.mapFind(m, k)
	if i < 0 {
		return nil, false
	}
	return m.entries[i].v, true
}

func (e *Engine) mapUpdate(m *MapObj, k, v Value) {
	if m == nil {
		e.goPanicRuntime("assignment to entry in nil map")
	}
	i := e.mapFind(m, k)
	e.mapTouch(m)
	if i >= 0 {
		m.entries[i].v = v
		return
	}
	m.entries = append(m.entries, mapEntry{k: k, v: v, live: true})
	if nk, ok := nativeKey(k); ok {
		m.idx[nk] = len(m.entries) - 1
	} else {
		m.hasSym = true
	}
}

func (e *Engine) mapDelete(m *MapObj, k Value) {
	if m == nil {
		return
	}
	i := e.mapFind(m, k)
	if i < 0 {
		return
	}
	e.mapTouch(m)
	m.entries[i].live = false
	if nk, ok := nativeKey(m.entries[i].k); ok {
		delete(m.idx, nk)
	}
}

func (m *MapObj) Len() int {
	if m == nil {
		return 0
	}
	n := 0
	for _, en := range m.entries {
		if en.live {
			n++
		}
	}
	return n
}

// ---------------------------------------------------------------------------
// equality

func (e *Engine) valuesEqual(a, b Value) *Term {
	switch x := a.(type) {
	case *Term:
		return Eq(x, b.(*Term))
	case Str:
		y := b.(Str)
		if x.Len() != y.Len() {
			return False
		}
		if x.Concrete() && y.Concrete() {
			return Bool(x.s == y.s)
		}
		r := True
		for i := 0; i < x.Len(); i++ {
			r = And(r, Eq(x.At(i), y.At(i)))
			if r.IsFalse() {
				return False
			}
		}
		return r
	case Ptr:
		y := b.(Ptr)
		if x.sym != nil || y.sym != nil {
			x = e.concretizePtr(x)
			y = e.concretizePtr(y)
		}
		return Bool(x.obj == y.obj && (x.obj == nil || x.off == y.off))
	case Iface:
		y, ok := b.(Iface)
		if !ok {
			panic("iface compared with non-iface")
		}
		if x.t == nil || y.t == nil {
			return Bool(x.t == nil && y.t == nil)
		}
		if !types.Identical(x.t, y.t) {
			return False
		}
		return e.valuesEqual(x.v, y.v)
	case Agg:
		y := b.(Agg)
		r := True
		for i := range x {
			r = And(r, e.valuesEqual(x[i], y[i]))
		}
		return r
	case *MapObj:
		return Bool(x == b.(*MapObj))
	case *ChanObj:
		return Bool(x == b.(*ChanObj))
	case *Closure:
		y := b.(*Closure)
		return Bool(x == y)
	case Slice:
		y := b.(Slice)
		return Bool(x.obj == nil && y.obj == nil)
	case nil:
		return Bool(b == nil)
	}
	panic(pathEnd{kind: endUnsupported, msg: fmt.Sprintf("equality on %T", a)})
}

func (e *Engine) concretizePtr(p Ptr) Ptr {
	if p.sym == nil {
		return p
	}
	v := e.concretize(p.sym)
	return Ptr{obj: p.obj, off: p.off + int(v)*p.stride}
}

// describe renders a value for reports.
func describe(v Value) string {
	switch x := v.(type) {
	case nil:
		return "<nil>"
	case *Term:
		return x.String()
	case Str:
		return fmt.Sprintf("%q", x.String())
	case Ptr:
		if x.obj == nil {
			return "nil"
		}
		return fmt.Sprintf("&obj%d+%d", x.obj.id, x.off)
	case Slice:
		if x.obj == nil {
			return "nil-slice"
		}
		var sb strings.Builder
		sb.WriteString("[")
		for i := 0; i < x.len*x.esz && i < 64; i++ {
			if i > 0 {
				sb.WriteString(" ")
			}
			sb.WriteString(describe(x.obj.get(x.off + i)))
		}
		sb.WriteString("]")
		return sb.String()
	case Iface:
		if x.t == nil {
			return "nil-iface"
		}
		return fmt.Sprintf("iface(%s,%s)", x.t, describe(x.v))
	case Agg:
		var sb strings.Builder
		sb.WriteString("{")
		for i, c := range x {
			if i > 0 {
				sb.WriteString(" ")
			}
			sb.WriteString(describe(c))
		}
		sb.WriteString("}")
		return sb.String()
	case Tuple:
		var sb strings.Builder
		sb.WriteString("(")
		for i, c := range x {
			if i > 0 {
				sb.WriteString(", ")
			}
			sb.WriteString(describe(c))
		}
		sb.WriteString(")")
		return sb.String()
	case *Closure:
		if x == nil {
			return "nil-func"
		}
		if x.fn != nil {
			return "func:" + x.fn.String()
		}
		return "func:?"
	case *MapObj:
		if x == nil {
			return "nil-map"
		}
		return fmt.Sprintf("map%d(%d)", x.id, x.Len())
	case *ChanObj:
		if x == nil {
			return "nil-chan"
		}
		return fmt.Sprintf("chan%d", x.id)
	}
	return fmt.Sprintf("%T", v)
}
