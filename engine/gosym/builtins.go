package gosym

import (
	"fmt"
	"go/types"

	"golang.org/x/tools/go/ssa"
)

func (e *Engine) builtin(g *G, b *ssa.Builtin, args []Value, argTypes []types.Type, in ssa.Value) Value {
	switch b.Name() {
	case "len":
		switch v := args[0].(type) {
		case Str:
			return BV(64, uint64(v.Len()))
		case Slice:
			return BV(64, uint64(v.len))
		case *MapObj:
			return BV(64, uint64(v.Len()))
		case *ChanObj:
			if v == nil {
				return BV(64, 0)
			}
			return BV(64, uint64(len(v.buf)))
		case Agg:
			at := argTypes[0].Underlying().(*types.Array)
			return BV(64, uint64(at.Len()))
		case Ptr:
			at := argTypes[0].Underlying().(*types.Pointer).Elem().Underlying().(*types.Array)
			return BV(64, uint64(at.Len()))
		}
	case "cap":
		switch v := args[0].(type) {
		case Slice:
			return BV(64, uint64(v.cap))
		case *ChanObj:
			if v == nil {
				return BV(64, 0)
			}
			return BV(64, uint64(v.cap))
		case Agg:
			at := argTypes[0].Underlying().(*types.Array)
			return BV(64, uint64(at.Len()))
		case Ptr:
			at := argTypes[0].Underlying().(*types.Pointer).Elem().Underlying().(*types.Array)
			return BV(64, uint64(at.Len()))
		}
	case "append":
		s := args[0].(Slice)
		var et types.Type
		if in != nil {
			et = in.Type().Underlying().(*types.Slice).Elem()
		} else if len(argTypes) > 0 {
			et = argTypes[0].Underlying().(*types.Slice).Elem()
		}
		switch x := args[1].(type) {
		case Str:
			return e.appendCells(s, x.Terms2Values(), 1, et)
		case Slice:
			if x.len == 0 {
				return s
			}
			if x.obj.cells == nil || (s.len+x.len)*x.esz > sparseThreshold {
				return e.appendBig(s, x, et)
			}
			cells := make([]Value, x.len*x.esz)
			for i := range cells {
				cells[i] = x.obj.get(x.off + i)
			}
			return e.appendCells(s, cells, x.esz, et)
		}
	case "copy":
		dst := args[0].(Slice)
		switch src := args[1].(type) {
		case Str:
			n := dst.len
			if src.Len() < n {
				n = src.Len()
			}
			for i := 0; i < n; i++ {
				e.set(dst.obj, dst.off+i, src.At(i))
			}
			return BV(64, uint64(n))
		case Slice:
			n := dst.len
			if src.len < n {
				n = src.len
			}
			if n == 0 {
				return BV(64, 0)
			}
			e.copyRange(dst.obj, dst.off, src.obj, src.off, n*src.esz)
			return BV(64, uint64(n))
		}
	case "delete":
		e.mapDelete(args[0].(*MapObj), args[1])
		return nil
	case "close":
		e.closeChan(args[0].(*ChanObj))
		return nil
	case "panic":
		e.goPanic(args[0], "panic: "+describe(args[0]))
	case "recover":
		fr := g.top()
		if g.panicking != nil && !g.panicking.recovered && fr != nil && fr.mode == modeUnwind {
			g.panicking.recovered = true
			v := g.panicking.val
			if _, ok := v.(Iface); !ok {
				v = Iface{}
			}
			return v
		}
		return Iface{}
	case "print", "println":
		return nil
	case "min", "max":
		r := args[0].(*Term)
		signed := isSigned(argTypes[0])
		for _, a := range args[1:] {
			t := a.(*Term)
			var lt *Term
			if signed {
				lt = Bin(OpSLt, t, r)
			} else {
				lt = Bin(OpULt, t, r)
			}
			if b.Name() == "max" {
				lt = Not(Or(lt, Eq(t, r)))
			}
			r = Ite(lt, t, r)
		}
		return r
	case "clear":
		switch v := args[0].(type) {
		case *MapObj:
			if v != nil {
				e.mapTouch(v)
				v.entries = nil
				v.rebuild()
			}
		case Slice:
			et := argTypes[0].Underlying().(*types.Slice).Elem()
			z := make([]Value, v.esz)
			fillZero(et, z)
			for i := 0; i < v.len; i++ {
				for j := 0; j < v.esz; j++ {
					e.set(v.obj, v.off+i*v.esz+j, z[j])
				}
			}
		}
		return nil
	case "SliceData":
		sl := args[0].(Slice)
		if sl.obj == nil {
			return Ptr{}
		}
		return Ptr{obj: sl.obj, off: sl.off}
	case "StringData":
		st := args[0].(Str)
		if st.Len() == 0 {
			return Ptr{}
		}
		sl := e.strToSlice(st, types.Typ[types.Uint8])
		return Ptr{obj: sl.obj, off: 0}
	case "String":
		p := args[0].(Ptr)
		n := int(e.concInt(args[1].(*Term), nil))
		if n == 0 {
			return Str{}
		}
		if p.obj == nil {
			e.goPanicRuntime("unsafe.String: ptr is nil and len is not zero")
		}
		if p.sym != nil {
			p = e.concretizePtr(p)
		}
		ts := make([]*Term, n)
		for i := range ts {
			ts[i] = p.obj.get(p.off + i).(*Term)
		}
		return mkStr(ts)
	case "Slice":
		p := args[0].(Ptr)
		n := int(e.concInt(args[1].(*Term), nil))
		if p.obj == nil {
			if n != 0 {
				e.goPanicRuntime("unsafe.Slice: ptr is nil and len is not zero")
			}
			return Slice{}
		}
		if p.sym != nil {
			p = e.concretizePtr(p)
		}
		es := 1
		if in != nil {
			es = flatSize(in.Type().Underlying().(*types.Slice).Elem())
		}
		return Slice{obj: p.obj, off: p.off, len: n, cap: n, esz: es}
	case "ssa:wrapnilchk":
		if p, ok := args[0].(Ptr); ok && p.obj == nil {
			e.goPanicRuntime("value method called using nil pointer")
		}
		return args[0]
	}
	panic(pathEnd{kind: endUnsupported, msg: fmt.Sprintf("builtin %s on %T", b.Name(), args[0])})
}

func (s Str) Terms2Values() []Value {
	r := make([]Value, s.Len())
	for i := range r {
		r[i] = s.At(i)
	}
	return r
}

func (e *Engine) appendCells(s Slice, cells []Value, esz int, et types.Type) Slice {
	n := len(cells) / max(esz, 1)
	if n == 0 {
		return s
	}
	if s.obj != nil && s.len+n <= s.cap {
		for i, v := range cells {
			e.set(s.obj, s.off+s.len*s.esz+i, v)
		}
		s.len += n
		return s
	}
	// grow
	need := s.len + n
	newcap := s.cap * 2
	if s.cap >= 256 {
		newcap = s.cap + s.cap/4 + 192
	}
	if newcap < need {
		newcap = need
	}
	if newcap < 4 && esz == 1 {
		newcap = need
		if newcap < 8 && et != nil && bitWidth(et) == 8 {
			newcap = 8
		}
	}
	o := e.newArrayObj(et, newcap)
	if o.cells == nil {
		if s.len > 0 {
			e.copyRange(o, 0, s.obj, s.off, s.len*esz)
		}
		for i, v := range cells {
			e.set(o, s.len*esz+i, v)
		}
		return Slice{obj: o, off: 0, len: need, cap: newcap, esz: esz}
	}
	for i := 0; i < s.len*esz; i++ {
		o.cells[i] = s.obj.get(s.off + i)
	}
	copy(o.cells[s.len*esz:], cells)
	return Slice{obj: o, off: 0, len: need, cap: newcap, esz: esz}
}

// appendBig is append(s, x...) for slices large enough to live in sparse objects: same
// growth rule as appendCells, cells moved with copyRange.
func (e *Engine) appendBig(s Slice, x Slice, et types.Type) Slice {
	esz := x.esz
	n := x.len
	if s.obj != nil && s.len+n <= s.cap {
		e.copyRange(s.obj, s.off+s.len*esz, x.obj, x.off, n*esz)
		s.len += n
		return s
	}
	need := s.len + n
	newcap := s.cap * 2
	if s.cap >= 256 {
		newcap = s.cap + s.cap/4 + 192
	}
	if newcap < need {
		newcap = need
	}
	o := e.newArrayObj(et, newcap)
	if s.len > 0 {
		e.copyRange(o, 0, s.obj, s.off, s.len*esz)
	}
	e.copyRange(o, s.len*esz, x.obj, x.off, n*esz)
	return Slice{obj: o, off: 0, len: need, cap: newcap, esz: esz}
}

// copyRange moves n cells (memmove semantics). For paged (large) sources whole zero
// pages are skipped.
func (e *Engine) copyRange(dst *Obj, doff int, src *Obj, soff, n int) {
	if n <= 0 {
		return
	}
	overlap := src == dst && soff < doff+n && doff < soff+n
	if src.cells != nil || n <= pageSize || overlap || !sameValue(src.zero, dstZero(dst)) {
		tmp := make([]Value, n)
		for i := range tmp {
			tmp[i] = src.get(soff + i)
		}
		for i, v := range tmp {
			e.set(dst, doff+i, v)
		}
		return
	}
	for i := 0; i < n; {
		// segment inside one source page
		sp := (soff + i) >> pageBits
		j := ((sp + 1) << pageBits) - soff
		if j > n {
			j = n
		}
		pg := src.pages[sp]
		if pg != nil {
			for k := i; k < j; k++ {
				e.set(dst, doff+k, pg[(soff+k)&(pageSize-1)])
			}
		} else if dst.cells != nil {
			for k := i; k < j; k++ {
				e.set(dst, doff+k, src.zero)
			}
		} else {
			for k := i; k < j; {
				dp := (doff + k) >> pageBits
				m := ((dp + 1) << pageBits) - doff
				if m > j {
					m = j
				}
				if dst.pages[dp] != nil {
					for q := k; q < m; q++ {
						e.set(dst, doff+q, src.zero)
					}
				}
				k = m
			}
		}
		i = j
	}
}

func dstZero(o *Obj) Value {
	if o.cells == nil {
		return o.zero
	}
	t := o.typ
	// objects made by new([N]T) carry the array type, those made by make([]T, n) the element type
	if at, ok := t.Underlying().(*types.Array); ok {
		t = at.Elem()
	}
	return zeroCell(t)
}

func sameValue(a, b Value) bool {
	ta, ok1 := a.(*Term)
	tb, ok2 := b.(*Term)
	return ok1 && ok2 && ta == tb
}
