package gosym

import (
	"fmt"
	"regexp"
	"go/types"
	"math"
	"strconv"
	"strings"

	"golang.org/x/tools/go/ssa"
)

type callStatus int

const (
	callDone callStatus = iota
	callBlocked
	callYield
	callPushed
	callDoneYield // the operation completed; other goroutines may run before the next instruction
)

type callCtx struct {
	e      *Engine
	g      *G
	fr     *Frame
	in     ssa.Value
	finish func(Value)
	fn     *ssa.Function
}

type intrinsic func(c *callCtx, args []Value) (Value, callStatus)

var intrinsics = map[string]intrinsic{}

func (e *Engine) runtimeErrType() types.Type {
	p := e.prog.ImportedPackage("runtime")
	if p == nil {
		panic(pathEnd{kind: endUnsupported, msg: "runtime package not loaded"})
	}
	return p.Type("errorString").Type()
}

func (e *Engine) isRuntimeErr(t types.Type) bool {
	return types.Identical(t, e.runtimeErrType())
}

func (e *Engine) findIntrinsic(fn *ssa.Function, name string) intrinsic {
	if in, ok := intrinsics[name]; ok {
		return in
	}
	if fn.Pkg != nil && fn.Signature.Recv() == nil && strings.HasPrefix(fn.Name(), "vf") {
		if in, ok := vfIntrinsics[fn.Name()]; ok {
			return in
		}
	}
	if fn.Pkg != nil {
		pp := fn.Pkg.Pkg.Path()
		if strings.HasSuffix(pp, "pkg/libs/log") {
			return logIntrinsic(fn)
		}
	}
	return nil
}

func termArg(v Value) *Term { return v.(*Term) }

func strOf(v Value) Str { return v.(Str) }

func (e *Engine) sliceTerms(s Slice) []*Term {
	r := make([]*Term, s.len)
	for i := range r {
		r[i] = s.obj.get(s.off + i).(*Term)
	}
	return r
}

func (e *Engine) newByteSlice(ts []*Term) Slice {
	n := len(ts)
	o := &Obj{n: n, epoch: e.epoch, id: e.nextObj, cells: make([]Value, n)}
	e.nextObj++
	for i, t := range ts {
		o.cells[i] = t
	}
	return Slice{obj: o, len: n, cap: n, esz: 1}
}


// indexByteTerms: first index of c in ts, as (found, index) terms.
func indexByteTerms(ts []*Term, c *Term) *Term {
	// returns int index (64-bit) or -1
	r := BV(64, ^uint64(0))
	for i := len(ts) - 1; i >= 0; i-- {
		r = Ite(Eq(ts[i], c), BV(64, uint64(i)), r)
	}
	return r
}

func init() {
	// ---------------- internal/bytealg
	intrinsics["internal/bytealg.IndexByte"] = func(c *callCtx, a []Value) (Value, callStatus) {
		return indexByteTerms(c.e.sliceTerms(a[0].(Slice)), termArg(a[1])), callDone
	}
	intrinsics["internal/bytealg.IndexByteString"] = func(c *callCtx, a []Value) (Value, callStatus) {
		s := strOf(a[0])
		if s.Concrete() && termArg(a[1]).IsConst() {
			return BV(64, uint64(int64(strings.IndexByte(s.s, byte(termArg(a[1]).V))))), callDone
		}
		return indexByteTerms(s.Terms(), termArg(a[1])), callDone
	}
	intrinsics["internal/bytealg.Equal"] = func(c *callCtx, a []Value) (Value, callStatus) {
		x, y := a[0].(Slice), a[1].(Slice)
		if x.len != y.len {
			return False, callDone
		}
		r := True
		xs, ys := c.e.sliceTerms(x), c.e.sliceTerms(y)
		for i := range xs {
			r = And(r, Eq(xs[i], ys[i]))
		}
		return r, callDone
	}
	intrinsics["internal/bytealg.Compare"] = func(c *callCtx, a []Value) (Value, callStatus) {
		x, y := mkStr(c.e.sliceTerms(a[0].(Slice))), mkStr(c.e.sliceTerms(a[1].(Slice)))
		return compareStr(c.e, x, y), callDone
	}
	intrinsics["internal/bytealg.CompareString"] = func(c *callCtx, a []Value) (Value, callStatus) {
		return compareStr(c.e, strOf(a[0]), strOf(a[1])), callDone
	}
	intrinsics["internal/bytealg.MakeNoZero"] = func(c *callCtx, a []Value) (Value, callStatus) {
		n := int(c.e.concInt(termArg(a[0]), nil))
		o := c.e.newArrayObj(types.Typ[types.Uint8], n)
		return Slice{obj: o, len: n, cap: n, esz: 1}, callDone
	}
	intrinsics["internal/bytealg.Count"] = func(c *callCtx, a []Value) (Value, callStatus) {
		return countTerms(c.e.sliceTerms(a[0].(Slice)), termArg(a[1])), callDone
	}
	intrinsics["internal/bytealg.CountString"] = func(c *callCtx, a []Value) (Value, callStatus) {
		return countTerms(strOf(a[0]).Terms(), termArg(a[1])), callDone
	}
	intrinsics["internal/bytealg.IndexString"] = func(c *callCtx, a []Value) (Value, callStatus) {
		return indexTerms(strOf(a[0]).Terms(), strOf(a[1]).Terms()), callDone
	}
	intrinsics["internal/bytealg.Index"] = func(c *callCtx, a []Value) (Value, callStatus) {
		return indexTerms(c.e.sliceTerms(a[0].(Slice)), c.e.sliceTerms(a[1].(Slice))), callDone
	}
	intrinsics["internal/stringslite.Index"] = func(c *callCtx, a []Value) (Value, callStatus) {
		return indexTerms(strOf(a[0]).Terms(), strOf(a[1]).Terms()), callDone
	}
	intrinsics["strings.Index"] = intrinsics["internal/stringslite.Index"]
	intrinsics["bytes.Index"] = intrinsics["internal/bytealg.Index"]
	intrinsics["strings.EqualFold"] = func(c *callCtx, a []Value) (Value, callStatus) {
		x, y := strOf(a[0]), strOf(a[1])
		if x.Concrete() && y.Concrete() {
			return Bool(strings.EqualFold(x.s, y.s)), callDone
		}
		if x.Len() != y.Len() {
			// a string that is shorter than an all-ASCII concrete string can never fold to it
			// (it would need at least as many runes, hence bytes)
			short, long := x, y
			if y.Len() < x.Len() {
				short, long = y, x
			}
			_ = short
			if long.Concrete() {
				ascii := true
				for i := 0; i < len(long.s); i++ {
					if long.s[i] >= 0x80 {
						ascii = false
					}
				}
				if ascii {
					return False, callDone
				}
			}
			// non-ASCII folding can change lengths only for multi-byte runes; treat bytes >= 0x80 as unsupported
			for _, t := range append(x.Terms(), y.Terms()...) {
				if !t.IsConst() || t.V >= 0x80 {
					if c.e.branch(Bin(OpULe, BV(8, 0x80), t)) {
						panic(pathEnd{kind: endUnsupported, msg: "EqualFold on non-ASCII symbolic input"})
					}
				}
			}
			return False, callDone
		}
		r := True
		for i := 0; i < x.Len(); i++ {
			p, q := x.At(i), y.At(i)
			for _, t := range []*Term{p, q} {
				if !t.IsConst() || t.V >= 0x80 {
					if c.e.branch(Bin(OpULe, BV(8, 0x80), t)) {
						panic(pathEnd{kind: endUnsupported, msg: "EqualFold on non-ASCII symbolic input"})
					}
				}
			}
			r = And(r, Eq(lowerTerm(p), lowerTerm(q)))
		}
		return r, callDone
	}

	// ---------------- sync/atomic
	for _, ty := range []string{"Int32", "Int64", "Uint32", "Uint64", "Uintptr"} {
		ty := ty
		intrinsics["sync/atomic.Load"+ty] = func(c *callCtx, a []Value) (Value, callStatus) {
			return c.e.load(a[0].(Ptr), c.fn.Signature.Results().At(0).Type()), callDone
		}
		intrinsics["sync/atomic.Store"+ty] = func(c *callCtx, a []Value) (Value, callStatus) {
			c.e.store(a[0].(Ptr), c.fn.Signature.Params().At(1).Type(), a[1])
			return nil, callDone
		}
		intrinsics["sync/atomic.Add"+ty] = func(c *callCtx, a []Value) (Value, callStatus) {
			t := c.fn.Signature.Params().At(1).Type()
			old := c.e.load(a[0].(Ptr), t).(*Term)
			nv := Bin(OpAdd, old, termArg(a[1]))
			c.e.store(a[0].(Ptr), t, nv)
			return nv, callDone
		}
		intrinsics["sync/atomic.Swap"+ty] = func(c *callCtx, a []Value) (Value, callStatus) {
			t := c.fn.Signature.Params().At(1).Type()
			old := c.e.load(a[0].(Ptr), t)
			c.e.store(a[0].(Ptr), t, a[1])
			return old, callDone
		}
		intrinsics["sync/atomic.CompareAndSwap"+ty] = func(c *callCtx, a []Value) (Value, callStatus) {
			t := c.fn.Signature.Params().At(1).Type()
			old := c.e.load(a[0].(Ptr), t).(*Term)
			if c.e.branch(Eq(old, termArg(a[1]))) {
				c.e.store(a[0].(Ptr), t, a[2])
				return True, callDone
			}
			return False, callDone
		}
		intrinsics["sync/atomic.And"+ty] = func(c *callCtx, a []Value) (Value, callStatus) {
			t := c.fn.Signature.Params().At(1).Type()
			old := c.e.load(a[0].(Ptr), t).(*Term)
			c.e.store(a[0].(Ptr), t, Bin(OpBAnd, old, termArg(a[1])))
			return old, callDone
		}
		intrinsics["sync/atomic.Or"+ty] = func(c *callCtx, a []Value) (Value, callStatus) {
			t := c.fn.Signature.Params().At(1).Type()
			old := c.e.load(a[0].(Ptr), t).(*Term)
			c.e.store(a[0].(Ptr), t, Bin(OpBOr, old, termArg(a[1])))
			return old, callDone
		}
	}
	intrinsics["sync/atomic.LoadPointer"] = func(c *callCtx, a []Value) (Value, callStatus) {
		return c.e.load(a[0].(Ptr), types.Typ[types.UnsafePointer]), callDone
	}
	intrinsics["sync/atomic.StorePointer"] = func(c *callCtx, a []Value) (Value, callStatus) {
		c.e.store(a[0].(Ptr), types.Typ[types.UnsafePointer], a[1])
		return nil, callDone
	}
	intrinsics["sync/atomic.CompareAndSwapPointer"] = func(c *callCtx, a []Value) (Value, callStatus) {
		old := c.e.load(a[0].(Ptr), types.Typ[types.UnsafePointer])
		if c.e.valuesEqual(old, a[1]).IsTrue() {
			c.e.store(a[0].(Ptr), types.Typ[types.UnsafePointer], a[2])
			return True, callDone
		}
		return False, callDone
	}

	// ---------------- sync
	intrinsics["(*sync.Mutex).Lock"] = func(c *callCtx, a []Value) (Value, callStatus) { return mutexLock(c, a[0].(Ptr), 0) }
	intrinsics["(*sync.Mutex).Unlock"] = func(c *callCtx, a []Value) (Value, callStatus) { return mutexUnlock(c, a[0].(Ptr), 0) }
	intrinsics["(*sync.Mutex).TryLock"] = func(c *callCtx, a []Value) (Value, callStatus) {
		p := a[0].(Ptr)
		if p.obj.get(p.off).(*Term).V == 0 {
			c.e.set(p.obj, p.off, BV(32, 1))
			return True, callDone
		}
		return False, callDone
	}
	intrinsics["(*sync.RWMutex).Lock"] = func(c *callCtx, a []Value) (Value, callStatus) {
		p := a[0].(Ptr)
		e := c.e
		if e.schedPoint(c.g) {
			return nil, callYield
		}
		free := func() bool { return p.obj.get(p.off).(*Term).V == 0 && p.obj.get(p.off+4).(*Term).V == 0 }
		if free() {
			e.set(p.obj, p.off, BV(32, 1))
			return nil, callDone
		}
		e.block(c.g, "RWMutex.Lock", free, func() { e.set(p.obj, p.off, BV(32, 1)); c.finish(nil) })
		return nil, callBlocked
	}
	intrinsics["(*sync.RWMutex).Unlock"] = func(c *callCtx, a []Value) (Value, callStatus) { return mutexUnlock(c, a[0].(Ptr), 0) }
	intrinsics["(*sync.RWMutex).RLock"] = func(c *callCtx, a []Value) (Value, callStatus) {
		p := a[0].(Ptr)
		e := c.e
		if e.schedPoint(c.g) {
			return nil, callYield
		}
		free := func() bool { return p.obj.get(p.off).(*Term).V == 0 }
		take := func() { e.set(p.obj, p.off+4, BV(32, p.obj.get(p.off+4).(*Term).V+1)) }
		if free() {
			take()
			return nil, callDone
		}
		e.block(c.g, "RWMutex.RLock", free, func() { take(); c.finish(nil) })
		return nil, callBlocked
	}
	intrinsics["(*sync.RWMutex).RUnlock"] = func(c *callCtx, a []Value) (Value, callStatus) {
		p := a[0].(Ptr)
		n := p.obj.get(p.off + 4).(*Term).V
		if n == 0 {
			c.e.goPanicRuntime("sync: RUnlock of unlocked RWMutex")
		}
		c.e.set(p.obj, p.off+4, BV(32, n-1))
		return nil, callDone
	}
	intrinsics["(*sync.WaitGroup).Add"] = func(c *callCtx, a []Value) (Value, callStatus) {
		p := a[0].(Ptr)
		old := p.obj.get(p.off).(*Term)
		d := termArg(a[1])
		nv := Bin(OpAdd, old, d)
		if !nv.IsConst() {
			nv = BV(64, c.e.concretize(nv))
		}
		if nv.SInt() < 0 {
			c.e.goPanicRuntime("sync: negative WaitGroup counter")
		}
		c.e.set(p.obj, p.off, nv)
		return nil, callDone
	}
	intrinsics["(*sync.WaitGroup).Done"] = func(c *callCtx, a []Value) (Value, callStatus) {
		p := a[0].(Ptr)
		old := p.obj.get(p.off).(*Term)
		if old.SInt() <= 0 {
			c.e.goPanicRuntime("sync: negative WaitGroup counter")
		}
		c.e.set(p.obj, p.off, BV(64, old.V-1))
		return nil, callDone
	}
	intrinsics["(*sync.WaitGroup).Wait"] = func(c *callCtx, a []Value) (Value, callStatus) {
		p := a[0].(Ptr)
		e := c.e
		if e.schedPoint(c.g) {
			return nil, callYield
		}
		zero := func() bool { return p.obj.get(p.off).(*Term).V == 0 }
		if zero() {
			return nil, callDone
		}
		e.block(c.g, "WaitGroup.Wait", zero, func() { c.finish(nil) })
		return nil, callBlocked
	}
	intrinsics["sync.NewCond"] = func(c *callCtx, a []Value) (Value, callStatus) {
		ct := c.fn.Signature.Results().At(0).Type().(*types.Pointer).Elem()
		o := c.e.newObj(ct)
		// field L is the first non-empty field
		st := ct.Underlying().(*types.Struct)
		for i := 0; i < st.NumFields(); i++ {
			if st.Field(i).Name() == "L" {
				o.cells[layoutOf(ct).offsets[i]] = a[0]
			}
		}
		return Ptr{obj: o}, callDone
	}
	intrinsics["(*sync.Cond).Wait"] = condWait
	intrinsics["(*sync.Cond).Signal"] = func(c *callCtx, a []Value) (Value, callStatus) {
		p := a[0].(Ptr)
		e := c.e
		ws := e.condWaiters(p)
		var live []*condWaiter
		for _, w := range *ws {
			if !w.signaled {
				live = append(live, w)
			}
		}
		if len(live) > 0 {
			k := e.choose(len(live))
			live[k].signaled = true
		}
		return nil, callDone
	}
	intrinsics["(*sync.Cond).Broadcast"] = func(c *callCtx, a []Value) (Value, callStatus) {
		p := a[0].(Ptr)
		for _, w := range *c.e.condWaiters(p) {
			w.signaled = true
		}
		return nil, callDone
	}
	intrinsics["(*sync.Once).Do"] = func(c *callCtx, a []Value) (Value, callStatus) {
		p := a[0].(Ptr)
		if p.obj.get(p.off).(*Term).V != 0 {
			return nil, callDone
		}
		c.e.set(p.obj, p.off, BV(32, 1))
		f := a[1].(*Closure)
		c.e.invoke(c.g, c.fr, f, nil, c.in, func(Value) { c.finish(nil) }, modeNormal)
		return nil, callPushed
	}

	// sync.Pool: Put keeps the object, Get hands back the most recently Put one (the per-P
	// private slot of the real pool) and calls New only when nothing is kept. The garbage
	// collector emptying the pool is not modelled (it gives the New path).
	poolItems := func(e *Engine, p Ptr) *[]Value {
		if e.extra["pool"] == nil {
			e.extra["pool"] = map[nkPtr]*[]Value{}
		}
		m := e.extra["pool"].(map[nkPtr]*[]Value)
		k := nkPtr{p.obj, p.off}
		if m[k] == nil {
			m[k] = &[]Value{}
		}
		return m[k]
	}
	intrinsics["(*sync.Pool).Put"] = func(c *callCtx, a []Value) (Value, callStatus) {
		if x, ok := a[1].(Iface); ok && x.IsNil() {
			return nil, callDone
		}
		l := poolItems(c.e, a[0].(Ptr))
		*l = append(*l, a[1])
		return nil, callDone
	}
	intrinsics["(*sync.Pool).Get"] = func(c *callCtx, a []Value) (Value, callStatus) {
		p := a[0].(Ptr)
		l := poolItems(c.e, p)
		if n := len(*l); n > 0 {
			v := (*l)[n-1]
			*l = (*l)[:n-1]
			return v, callDone
		}
		ct := c.fn.Signature.Recv().Type().(*types.Pointer).Elem()
		st := ct.Underlying().(*types.Struct)
		lay := layoutOf(ct)
		for i := 0; i < st.NumFields(); i++ {
			if st.Field(i).Name() == "New" {
				f, _ := p.obj.get(p.off + lay.offsets[i]).(*Closure)
				if f == nil {
					return Iface{}, callDone
				}
				c.e.invoke(c.g, c.fr, f, nil, c.in, func(v Value) { c.finish(v) }, modeNormal)
				return nil, callPushed
			}
		}
		return Iface{}, callDone
	}

	// ---------------- runtime, os, time
	intrinsics["os.Exit"] = func(c *callCtx, a []Value) (Value, callStatus) {
		panic(pathEnd{kind: endAbort, msg: "os.Exit(" + termArg(a[0]).String() + ")"})
	}
	intrinsics["runtime.Gosched"] = func(c *callCtx, a []Value) (Value, callStatus) {
		if c.e.schedPoint(c.g) {
			return nil, callYield
		}
		return nil, callDone
	}
	// time.Sleep returns when nothing else can run: a sleep is long compared with the computation of
	// the other goroutines (polling loops would otherwise spin for ever under an unfair schedule)
	intrinsics["time.Sleep"] = func(c *callCtx, a []Value) (Value, callStatus) {
		e, g := c.e, c.g
		if len(e.gs) == 1 {
			return nil, callDone
		}
		g.idleWaiter = true
		quiet := func() bool {
			for _, o := range e.gs {
				if o == g || o.idleWaiter {
					continue
				}
				if o.status == gRunnable {
					return false
				}
				if o.status == gBlocked && o.ready != nil && o.ready() {
					return false
				}
			}
			return true
		}
		if quiet() {
			g.idleWaiter = false
			return nil, callDone
		}
		e.block(g, "time.Sleep", quiet, func() { g.idleWaiter = false; c.finish(nil) })
		return nil, callBlocked
	}
	intrinsics["runtime.GC"] = func(c *callCtx, a []Value) (Value, callStatus) { return nil, callDone }
	// monotonic clock reading taken by time's initialiser (process start): a fixed instant
	intrinsics["time.runtimeNano"] = func(c *callCtx, a []Value) (Value, callStatus) { return BV(64, 1_000_000), callDone }
	intrinsics["runtime/debug.FreeOSMemory"] = intrinsics["runtime.GC"]
	intrinsics["runtime.KeepAlive"] = intrinsics["runtime.GC"]
	intrinsics["runtime.SetFinalizer"] = intrinsics["runtime.GC"]
	intrinsics["runtime.Caller"] = func(c *callCtx, a []Value) (Value, callStatus) {
		return Tuple{BV(64, 0), Str{s: "?"}, BV(64, 0), False}, callDone
	}
	intrinsics["runtime.Callers"] = func(c *callCtx, a []Value) (Value, callStatus) { return BV(64, 0), callDone }
	intrinsics["github.com/alibaba/RedisShake/pkg/libs/trace.TraceN"] = func(c *callCtx, a []Value) (Value, callStatus) {
		return Slice{}, callDone
	}
	intrinsics["github.com/alibaba/RedisShake/pkg/libs/trace.Trace"] = intrinsics["github.com/alibaba/RedisShake/pkg/libs/trace.TraceN"]
	intrinsics["internal/abi.NoEscape"] = func(c *callCtx, a []Value) (Value, callStatus) { return a[0], callDone }
	intrinsics["internal/abi.Escape"] = intrinsics["internal/abi.NoEscape"]
	intrinsics["internal/godebug.(*Setting).Value"] = func(c *callCtx, a []Value) (Value, callStatus) { return Str{}, callDone }
	intrinsics["(*internal/godebug.Setting).Value"] = intrinsics["internal/godebug.(*Setting).Value"]
	intrinsics["(*internal/godebug.Setting).IncNonDefault"] = intrinsics["runtime.GC"]
	intrinsics["internal/race.Enabled"] = func(c *callCtx, a []Value) (Value, callStatus) { return False, callDone }
	for _, n := range []string{"Acquire", "Release", "ReleaseMerge", "Disable", "Enable", "Read", "Write", "ReadRange", "WriteRange", "Errors"} {
		intrinsics["internal/race."+n] = intrinsics["runtime.GC"]
	}
	intrinsics["time.Now"] = func(c *callCtx, a []Value) (Value, callStatus) {
		// a fixed, slowly advancing clock; harnesses that care replace time.Now
		c.e.nowCounter++
		t := c.fn.Signature.Results().At(0).Type()
		v := zeroValue(t).(Agg)
		v[0] = BV(64, 0)
		v[1] = BV(64, uint64(63713000000+c.e.nowCounter)) // seconds since year 1 (2020)
		return v, callDone
	}

	// ---------------- math
	intrinsics["math.Float64bits"] = func(c *callCtx, a []Value) (Value, callStatus) { return a[0], callDone }
	intrinsics["math.Float64frombits"] = intrinsics["math.Float64bits"]
	intrinsics["math.Float32bits"] = intrinsics["math.Float64bits"]
	intrinsics["math.Float32frombits"] = intrinsics["math.Float64bits"]
	intrinsics["math.IsNaN"] = func(c *callCtx, a []Value) (Value, callStatus) { return FPred(OpFIsNaN, 64, termArg(a[0])), callDone }
	intrinsics["math.IsInf"] = func(c *callCtx, a []Value) (Value, callStatus) {
		f, s := termArg(a[0]), termArg(a[1])
		inf := FPred(OpFIsInf, 64, f)
		neg := Eq(Extract(f, 63, 63), BV(1, 1))
		sg := c.e.concretize(s)
		switch {
		case signExt(sg, s.W) > 0:
			return And(inf, Not(neg)), callDone
		case signExt(sg, s.W) < 0:
			return And(inf, neg), callDone
		}
		return inf, callDone
	}
	intrinsics["math.Inf"] = func(c *callCtx, a []Value) (Value, callStatus) {
		s := termArg(a[0])
		sg := signExt(c.e.concretize(s), s.W)
		if sg >= 0 {
			return BV(64, math.Float64bits(math.Inf(1))), callDone
		}
		return BV(64, math.Float64bits(math.Inf(-1))), callDone
	}
	intrinsics["math.NaN"] = func(c *callCtx, a []Value) (Value, callStatus) {
		return BV(64, math.Float64bits(math.NaN())), callDone
	}
	for _, n := range []string{"Floor", "Ceil", "Trunc", "Sqrt", "Abs", "Log", "Log2", "Log10", "Exp"} {
		n := n
		intrinsics["math."+n] = func(c *callCtx, a []Value) (Value, callStatus) {
			f := termArg(a[0])
			if !f.IsConst() {
				return UF("math_"+n, 64, f), callDone
			}
			x := math.Float64frombits(f.V)
			var r float64
			switch n {
			case "Floor":
				r = math.Floor(x)
			case "Ceil":
				r = math.Ceil(x)
			case "Trunc":
				r = math.Trunc(x)
			case "Sqrt":
				r = math.Sqrt(x)
			case "Abs":
				r = math.Abs(x)
			case "Log":
				r = math.Log(x)
			case "Log2":
				r = math.Log2(x)
			case "Log10":
				r = math.Log10(x)
			case "Exp":
				r = math.Exp(x)
			}
			return BV(64, math.Float64bits(r)), callDone
		}
	}

	// ---------------- strconv floats (trusted round trip, see DESIGN §3.4)
	intrinsics["strconv.FormatFloat"] = func(c *callCtx, a []Value) (Value, callStatus) {
		f, fm, prec, bs := termArg(a[0]), termArg(a[1]), termArg(a[2]), termArg(a[3])
		if f.IsConst() && fm.IsConst() && prec.IsConst() && bs.IsConst() {
			return Str{s: strconv.FormatFloat(math.Float64frombits(f.V), byte(fm.V), int(prec.SInt()), int(bs.SInt()))}, callDone
		}
		return c.e.opaqueFloatText(f), callDone
	}
	intrinsics["strconv.ParseFloat"] = func(c *callCtx, a []Value) (Value, callStatus) {
		s := strOf(a[0])
		errNil := Iface{}
		if f, ok := c.e.floatTextSource(s); ok {
			return Tuple{f, errNil}, callDone
		}
		if s.Concrete() {
			f, err := strconv.ParseFloat(s.s, int(termArg(a[1]).SInt()))
			if err != nil {
				return Tuple{BV(64, math.Float64bits(f)), c.e.mkError("strconv.ParseFloat: parsing " + strconv.Quote(s.s) + ": invalid syntax")}, callDone
			}
			return Tuple{BV(64, math.Float64bits(f)), errNil}, callDone
		}
		if f, ok := c.e.floatTextSource(s); ok {
			return Tuple{f, errNil}, callDone
		}
		// Symbolic text: fork every symbolic byte over the character classes the
		// parser distinguishes ('1'..'9' as one class, every syntactically
		// meaningful character by itself, everything else as "other"); the
		// error outcome is decided natively on a class representative, the
		// numeric value is opaque unless every byte became concrete.
		if s.Len() > 8 {
			panic(pathEnd{kind: endUnsupported, msg: "strconv.ParseFloat on symbolic text longer than 8"})
		}
		rep := make([]byte, s.Len())
		exact := true
		for i := 0; i < s.Len(); i++ {
			t := s.At(i)
			if t.IsConst() {
				rep[i] = byte(t.V)
				continue
			}
			if c.e.branch(And(Bin(OpULe, BV(8, '1'), t), Bin(OpULe, t, BV(8, '9')))) {
				rep[i] = '1'
				exact = false
				continue
			}
			found := false
			for _, ch := range []byte("0.-+eE_iInNfFaAtTyYxXpPbBoOcCdD") {
				if c.e.branch(Eq(t, BV(8, uint64(ch)))) {
					rep[i] = ch
					found = true
					break
				}
			}
			if !found {
				rep[i] = '?'
				exact = false
			}
		}
		f, err := strconv.ParseFloat(string(rep), int(termArg(a[1]).SInt()))
		var fv Value = BV(64, math.Float64bits(f))
		if !exact {
			args := append([]*Term{}, s.Terms()...)
			for len(args) < 8 {
				args = append(args, BV(8, 0))
			}
			fv = UF(fmt.Sprintf("parsefloat%d", s.Len()), 64, args...)
		}
		if err != nil {
			return Tuple{fv, c.e.mkError("strconv.ParseFloat: parsing: invalid syntax")}, callDone
		}
		return Tuple{fv, errNil}, callDone
	}
}

func lowerTerm(t *Term) *Term {
	if t.IsConst() {
		c := byte(t.V)
		if c >= 'A' && c <= 'Z' {
			c += 32
		}
		return BV(8, uint64(c))
	}
	isUp := And(Bin(OpULe, BV(8, 'A'), t), Bin(OpULe, t, BV(8, 'Z')))
	return Ite(isUp, Bin(OpAdd, t, BV(8, 32)), t)
}

func compareStr(e *Engine, x, y Str) *Term {
	lt := strLess(x, y)
	eq := e.valuesEqual(x, y)
	return Ite(eq, BV(64, 0), Ite(lt, BV(64, ^uint64(0)), BV(64, 1)))
}

func countTerms(ts []*Term, c *Term) *Term {
	r := BV(64, 0)
	for _, t := range ts {
		r = Bin(OpAdd, r, Ite(Eq(t, c), BV(64, 1), BV(64, 0)))
	}
	return r
}

func indexTerms(hay, needle []*Term) *Term {
	n, m := len(hay), len(needle)
	r := BV(64, ^uint64(0))
	if m == 0 {
		return BV(64, 0)
	}
	for i := n - m; i >= 0; i-- {
		eq := True
		for j := 0; j < m; j++ {
			eq = And(eq, Eq(hay[i+j], needle[j]))
		}
		r = Ite(eq, BV(64, uint64(i)), r)
	}
	return r
}

func mutexLock(c *callCtx, p Ptr, cell int) (Value, callStatus) {
	e := c.e
	if p.obj == nil {
		e.goPanicRuntime("nil mutex")
	}
	if e.schedPoint(c.g) {
		return nil, callYield
	}
	free := func() bool { return p.obj.get(p.off+cell).(*Term).V == 0 }
	if free() {
		e.set(p.obj, p.off+cell, BV(32, 1))
		return nil, callDone
	}
	e.block(c.g, "Mutex.Lock", free, func() { e.set(p.obj, p.off+cell, BV(32, 1)); c.finish(nil) })
	return nil, callBlocked
}

func mutexUnlock(c *callCtx, p Ptr, cell int) (Value, callStatus) {
	e := c.e
	if p.obj.get(p.off+cell).(*Term).V == 0 {
		panic(pathEnd{kind: endPanic, msg: "fatal error: sync: unlock of unlocked mutex"})
	}
	e.set(p.obj, p.off+cell, BV(32, 0))
	if e.yieldAfter(c.g) {
		return nil, callDoneYield
	}
	return nil, callDone
}

type condWaiter struct {
	g        *G
	signaled bool
}

func (e *Engine) condWaiters(p Ptr) *[]*condWaiter {
	if e.extra["cond"] == nil {
		e.extra["cond"] = map[nkPtr]*[]*condWaiter{}
	}
	m := e.extra["cond"].(map[nkPtr]*[]*condWaiter)
	k := nkPtr{p.obj, p.off}
	if m[k] == nil {
		m[k] = &[]*condWaiter{}
	}
	return m[k]
}

func condWait(c *callCtx, a []Value) (Value, callStatus) {
	e := c.e
	p := a[0].(Ptr)
	// locate field L
	ct := c.fn.Signature.Recv().Type().(*types.Pointer).Elem()
	st := ct.Underlying().(*types.Struct)
	var L Iface
	for i := 0; i < st.NumFields(); i++ {
		if st.Field(i).Name() == "L" {
			L = p.obj.get(p.off + layoutOf(ct).offsets[i]).(Iface)
		}
	}
	mp, ok := L.v.(Ptr)
	if !ok {
		panic(pathEnd{kind: endUnsupported, msg: "sync.Cond with unsupported Locker"})
	}
	// unlock
	if mp.obj.get(mp.off).(*Term).V == 0 {
		panic(pathEnd{kind: endPanic, msg: "fatal error: sync: unlock of unlocked mutex (Cond.Wait)"})
	}
	e.set(mp.obj, mp.off, BV(32, 0))
	w := &condWaiter{g: c.g}
	ws := e.condWaiters(p)
	*ws = append(*ws, w)
	e.block(c.g, "Cond.Wait", func() bool { return w.signaled && mp.obj.get(mp.off).(*Term).V == 0 }, func() {
		// remove from the waiter list, re-acquire the lock
		for i, x := range *ws {
			if x == w {
				*ws = append((*ws)[:i:i], (*ws)[i+1:]...)
				break
			}
		}
		e.set(mp.obj, mp.off, BV(32, 1))
		c.finish(nil)
	})
	return nil, callBlocked
}

// mkError builds an error value (errors.New equivalent).
func (e *Engine) mkError(msg string) Value {
	p := e.prog.ImportedPackage("errors")
	if p == nil {
		panic(pathEnd{kind: endUnsupported, msg: "errors package not loaded"})
	}
	t := p.Type("errorString").Type()
	o := e.newObj(t)
	o.cells[0] = Str{s: msg}
	return Iface{t: types.NewPointer(t), v: Ptr{obj: o}}
}

// Float text round trip: FormatFloat of a symbolic float produces an opaque
// string that remembers its source; ParseFloat of exactly that string returns
// the source (non-NaN assumed by the caller; NaN payloads are not preserved by
// text, which the harnesses account for).
func (e *Engine) opaqueFloatText(f *Term) Str {
	k := len(e.pwTerms)
	e.pwTerms = append(e.pwTerms, []*Term{f})
	// encode as marker bytes: 0x01 'F' k
	return Str{sym: []*Term{BV(8, 1), BV(8, 'F'), BV(8, uint64(k)), BV(8, '#')}}
}

func (e *Engine) floatTextSource(s Str) (*Term, bool) {
	if s.Len() == 4 && s.At(0).IsConst() && s.At(0).V == 1 && s.At(1).IsConst() && s.At(1).V == 'F' && s.At(2).IsConst() && s.At(3).IsConst() && s.At(3).V == '#' {
		k := int(s.At(2).V)
		if k < len(e.pwTerms) {
			return e.pwTerms[k][0], true
		}
	}
	return nil, false
}

func fmtDesc(v Value) string { return fmt.Sprint(describe(v)) }

// ---------------------------------------------------------------------------
// regexp model: patterns are kept on the side; matching is native for concrete
// input and structural for the anchored-literal patterns the repo uses.

type regexpRec struct{ pattern string }

func regexpCompile(p string) (*regexp.Regexp, error) { return regexp.Compile(p) }

func init() {
	compile := func(c *callCtx, a []Value) (Value, callStatus) {
		pat := concStr(a[0])
		if _, err := regexpCompile(pat); err != nil {
			c.e.goPanic(Iface{t: types.Typ[types.String], v: Str{s: "regexp: Compile(" + pat + "): " + err.Error()}}, "regexp.MustCompile: "+err.Error())
		}
		p := c.e.prog.ImportedPackage("regexp")
		t := p.Type("Regexp").Type()
		o := c.e.newObj(t)
		if c.e.regexps == nil {
			c.e.regexps = map[*Obj]string{}
		}
		c.e.regexps[o] = pat
		return Ptr{obj: o}, callDone
	}
	intrinsics["regexp.MustCompile"] = compile
	intrinsics["regexp.Compile"] = func(c *callCtx, a []Value) (Value, callStatus) {
		v, st := compile(c, a)
		return Tuple{v, Iface{}}, st
	}
	intrinsics["(*regexp.Regexp).MatchString"] = func(c *callCtx, a []Value) (Value, callStatus) {
		p := a[0].(Ptr)
		pat, ok := c.e.regexps[p.obj]
		if !ok {
			panic(pathEnd{kind: endUnsupported, msg: "MatchString on unknown regexp"})
		}
		s := strOf(a[1])
		if s.Concrete() {
			re, _ := regexpCompile(pat)
			return Bool(re.MatchString(s.s)), callDone
		}
		// ^literal
		if strings.HasPrefix(pat, "^") && !strings.ContainsAny(pat[1:], `\.+*?()|[]{}^$`) {
			lit := pat[1:]
			if s.Len() < len(lit) {
				return False, callDone
			}
			return c.e.valuesEqual(s.Sub(0, len(lit)), Str{s: lit}), callDone
		}
		if r, ok := c.e.symMatchString(pat, s); ok {
			return r, callDone
		}
		panic(pathEnd{kind: endUnsupported, msg: "regexp " + pat + " on symbolic input"})
	}
	intrinsics["(*regexp.Regexp).String"] = func(c *callCtx, a []Value) (Value, callStatus) {
		return Str{s: c.e.regexps[a[0].(Ptr).obj]}, callDone
	}
	matchNative := func(name string) {
		intrinsics["(*regexp.Regexp)."+name] = func(c *callCtx, a []Value) (Value, callStatus) {
			p := a[0].(Ptr)
			pat := c.e.regexps[p.obj]
			s := strOf(a[1])
			if !s.Concrete() {
				panic(pathEnd{kind: endUnsupported, msg: "regexp." + name + " on symbolic input"})
			}
			re, _ := regexpCompile(pat)
			switch name {
			case "FindStringSubmatch":
				m := re.FindStringSubmatch(s.s)
				if m == nil {
					return Slice{}, callDone
				}
				o := c.e.newArrayObj(types.Typ[types.String], len(m))
				for i, x := range m {
					o.cells[i] = Str{s: x}
				}
				return Slice{obj: o, len: len(m), cap: len(m), esz: 1}, callDone
			case "FindString":
				return Str{s: re.FindString(s.s)}, callDone
			}
			panic(pathEnd{kind: endUnsupported, msg: "regexp." + name})
		}
	}
	matchNative("FindStringSubmatch")
	matchNative("FindString")
}

func init() {
	// zero-copy string/[]byte views of the repo (reflect.StringHeader tricks): modelled as copies;
	// the aliasing is not observable unless the bytes are written afterwards, which the callers do not do
	intrinsics[ModulePath+"/redis-shake/common.String2Bytes"] = func(c *callCtx, a []Value) (Value, callStatus) {
		s := strOf(a[0])
		if s.Len() == 0 {
			return Slice{}, callDone
		}
		return c.e.strToSlice(s, types.Typ[types.Uint8]), callDone
	}
	intrinsics[ModulePath+"/redis-shake/common.Bytes2String"] = func(c *callCtx, a []Value) (Value, callStatus) {
		sl := a[0].(Slice)
		if sl.obj == nil || sl.len == 0 {
			return Str{}, callDone
		}
		return c.e.sliceToStr(sl), callDone
	}
}

func init() {
	for _, n := range []string{"Min", "Max"} {
		n := n
		intrinsics["math."+n] = func(c *callCtx, a []Value) (Value, callStatus) {
			x, y := termArg(a[0]), termArg(a[1])
			if x.IsConst() && y.IsConst() {
				fx, fy := math.Float64frombits(x.V), math.Float64frombits(y.V)
				if n == "Min" {
					return BV(64, math.Float64bits(math.Min(fx, fy))), callDone
				}
				return BV(64, math.Float64bits(math.Max(fx, fy))), callDone
			}
			return UF("math_"+n, 64, x, y), callDone
		}
	}
}

// ---------------------------------------------------------------------------
// encoding/json.Marshal: contract model for flat structs of strings, integers
// and float64 (what decode mode marshals). Field names come from the json
// tags. Strings are emitted between quotes WITHOUT escaping (the JSON escaping
// rules are outside the claim); a NaN or infinite float makes Marshal fail, as
// documented by encoding/json.
func init() {
	intrinsics["encoding/json.Marshal"] = func(c *callCtx, a []Value) (Value, callStatus) {
		e := c.e
		iv := a[0].(Iface)
		if iv.t == nil {
			return Tuple{e.newByteSlice(Str{s: "null"}.Terms()), Iface{}}, callDone
		}
		t := iv.t
		v := iv.v
		if pt, ok := t.Underlying().(*types.Pointer); ok {
			p := v.(Ptr)
			if p.obj == nil {
				return Tuple{e.newByteSlice(Str{s: "null"}.Terms()), Iface{}}, callDone
			}
			t = pt.Elem()
			v = e.loadAt(p.obj, p.off, t)
		}
		st, ok := t.Underlying().(*types.Struct)
		if !ok {
			panic(pathEnd{kind: endUnsupported, msg: "json.Marshal model: not a struct: " + t.String()})
		}
		agg := v.(Agg)
		l := layoutOf(t)
		var out []*Term
		putS(&out, "{")
		for i := 0; i < st.NumFields(); i++ {
			if i > 0 {
				putS(&out, ",")
			}
			name := st.Field(i).Name()
			if tag := reflectTag(st.Tag(i), "json"); tag != "" {
				name = strings.Split(tag, ",")[0]
			}
			putS(&out, "\""+name+"\":")
			ft := st.Field(i).Type()
			fv := agg[l.offsets[i]]
			switch {
			case isString(ft):
				putS(&out, "\"")
				out = append(out, fv.(Str).Terms()...)
				putS(&out, "\"")
			case isFloat(ft):
				f := fv.(*Term)
				bad := Or(FPred(OpFIsNaN, 64, f), FPred(OpFIsInf, 64, f))
				if e.branch(bad) {
					return Tuple{Slice{}, e.mkError("json: unsupported value: NaN or Inf")}, callDone
				}
				if f.IsConst() {
					putS(&out, strconv.FormatFloat(math.Float64frombits(f.V), 'g', -1, 64))
				} else {
					out = append(out, e.opaqueFloatText(f).Terms()...)
				}
			case isInteger(ft):
				e.fmtValue(c.g, &out, fv, ft, 'd', false, false, 1)
			default:
				panic(pathEnd{kind: endUnsupported, msg: "json.Marshal model: field type " + ft.String()})
			}
		}
		putS(&out, "}")
		return Tuple{e.newByteSlice(out), Iface{}}, callDone
	}
}

func reflectTag(tag, key string) string {
	// minimal struct tag lookup: key:"value"
	for tag != "" {
		i := 0
		for i < len(tag) && tag[i] == ' ' {
			i++
		}
		tag = tag[i:]
		if tag == "" {
			break
		}
		i = 0
		for i < len(tag) && tag[i] > ' ' && tag[i] != ':' && tag[i] != '"' {
			i++
		}
		if i == 0 || i+1 >= len(tag) || tag[i] != ':' || tag[i+1] != '"' {
			break
		}
		name := tag[:i]
		tag = tag[i+1:]
		i = 1
		for i < len(tag) && tag[i] != '"' {
			if tag[i] == '\\' {
				i++
			}
			i++
		}
		if i >= len(tag) {
			break
		}
		val := tag[1:i]
		tag = tag[i+1:]
		if name == key {
			return val
		}
	}
	return ""
}
