package main

import (
	"encoding/json"
	"flag"
	"fmt"
	"os"
	"regexp"
	"sort"
	"strings"
	"time"

	"gosym/gosym"

	"golang.org/x/tools/go/ssa"
)

func main() {
	if len(os.Args) > 1 {
		switch os.Args[1] {
		case "worker":
			workerMain()
			return
		case "check":
			os.Exit(checkMain(os.Args[2:]))
		}
	}
	var (
		repoSrc  = flag.String("repo", "/repo/src", "module root")
		harness  = flag.String("harness", "/verif/harness/src", "harness root mirroring the module layout")
		api      = flag.String("api", "/verif/harness/vfapi.go", "vf api file")
		pkgs     = flag.String("pkgs", "", "comma separated package patterns (./pkg/redis,...)")
		run      = flag.String("run", "", "regexp of harness functions to run")
		concrete = flag.Bool("concrete", false, "concrete mode (no solver)")
		verbose  = flag.Int("v", 0, "verbosity")
		solver   = flag.String("solver", "z3", "z3|z3-new|cvc5")
		timeout  = flag.Int("timeout", 10000, "per query timeout ms")
		preempt  = flag.Int("preempt", 2, "preemption bound")
		params   = flag.String("params", "", "k=v,k=v")
		out      = flag.String("out", "", "write results json here")
		maxPaths = flag.Int("maxpaths", 20000, "path budget")
	)
	flag.Parse()
	t0 := time.Now()
	patterns := strings.Split(*pkgs, ",")
	only := map[string]bool{}
	for _, p := range patterns {
		only[strings.TrimPrefix(p, "./")] = true
	}
	ov, notes, err := gosym.BuildOverlay(*repoSrc, *harness, *api, only)
	if err != nil {
		fmt.Println("INCONCLUSIVE overlay:", err)
		os.Exit(2)
	}
	ld, err := gosym.Load(*repoSrc, patterns, ov)
	if err != nil {
		fmt.Println("INCONCLUSIVE load:", err)
		os.Exit(2)
	}
	for _, n := range notes {
		fmt.Fprintln(os.Stderr, "note:", n)
	}
	fmt.Fprintf(os.Stderr, "loaded in %.1fs\n", time.Since(t0).Seconds())
	re := regexp.MustCompile(*run)
	var fns []*ssa.Function
	for _, p := range ld.SSA {
		for name, m := range p.Members {
			if f, ok := m.(*ssa.Function); ok && strings.HasPrefix(name, "VF_") && re.MatchString(name) {
				fns = append(fns, f)
			}
		}
	}
	sort.Slice(fns, func(i, j int) bool { return fns[i].Name() < fns[j].Name() })
	var results []*gosym.Result
	exit := 0
	for _, fn := range fns {
		opts := gosym.Options{Solver: *solver, TimeoutMS: *timeout, Concrete: *concrete, Verbose: *verbose, Preempt: *preempt, Witnesses: 4, MaxPaths: *maxPaths, KnownFindings: map[string]bool{}}
		e := gosym.NewEngine(ld.Prog, opts)
		if *params != "" {
			for _, kv := range strings.Split(*params, ",") {
				var k string
				var v int64
				parts := strings.SplitN(kv, "=", 2)
				k = parts[0]
				fmt.Sscan(parts[1], &v)
				e.SetParam(k, v)
			}
		}
		ti := time.Now()
		e.RunInit(fn.Pkg)
		for _, n := range e.InitNotes {
			fmt.Fprintln(os.Stderr, "init:", n)
		}
		fmt.Fprintf(os.Stderr, "init %.1fs\n", time.Since(ti).Seconds())
		r := e.Run(fn, fn.Name())
		results = append(results, r)
		st := r.Stats
		fmt.Printf("%s: paths=%d %v asserts=%d unsat=%d sat=%d trivial=%d twin(viol=%d held=%d) queries=%d solver=%.2fs wall=%.2fs steps=%d\n",
			fn.Name(), st.Paths, st.PathsByEnd, st.Asserts, st.AssertsUnsat, st.AssertsSat, st.AssertsTrivial, st.TwinViolated, st.TwinHeld, st.Queries, st.SolverSeconds, st.WallSeconds, st.Steps)
		for _, v := range r.Violations {
			fmt.Printf("  VIOLATION-CANDIDATE %s: %s model=%v obs=%v\n", v.Kind, v.Msg, v.Model, v.Observed)
			exit = 1
		}
		for _, v := range r.Known {
			fmt.Printf("  KNOWN %s: %s\n", v.Known, v.Msg)
		}
		for _, m := range st.Inconclusive {
			fmt.Printf("  INCONCLUSIVE %s\n", m)
			if exit == 0 {
				exit = 2
			}
		}
	}
	if *out != "" {
		b, _ := json.MarshalIndent(results, "", " ")
		os.WriteFile(*out, b, 0644)
	}
	os.Exit(exit)
}
