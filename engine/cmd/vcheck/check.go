package main

import (
	"bytes"
	"context"
	"encoding/json"
	"fmt"
	"os"
	"os/exec"
	"path/filepath"
	"regexp"
	"runtime"
	"sort"
	"strings"
	"time"

	"gosym/gosym"
)

type replayOut struct {
	Status   string            `json:"status"`
	Failures []string          `json:"failures"`
	Observed map[string]string `json:"observed"`
	Exit     int               `json:"exit"`
	Raw      string            `json:"raw,omitempty"`
}

type replayer struct {
	dir     string
	bins    map[string]string // pkg rel dir -> test binary
	errs    map[string]string
	overlay map[string][]byte
}

var funcDecl = regexp.MustCompile(`(?m)^func (VF_\w+)\(\)`)
var pkgClauseRe = regexp.MustCompile(`(?m)^package\s+(\w+)`)

func newReplayer() (*replayer, error) {
	dir, err := os.MkdirTemp("", "vfreplay-")
	if err != nil {
		return nil, err
	}
	return &replayer{dir: dir, bins: map[string]string{}, errs: map[string]string{}}, nil
}

func (r *replayer) close() { os.RemoveAll(r.dir) }

// build compiles the native replay test binary for one package directory.
func (r *replayer) build(pkg string) (string, error) {
	if b, ok := r.bins[pkg]; ok {
		if b == "" {
			return "", fmt.Errorf("%s", r.errs[pkg])
		}
		return b, nil
	}
	ov, _, err := gosym.BuildOverlay(repoSrc, harnessRoot, apiFile, map[string]bool{pkg: true})
	if err != nil {
		return "", err
	}
	// harness registry + test driver
	var names []string
	pkgName := ""
	for p, src := range ov {
		if filepath.Dir(p) != filepath.Join(repoSrc, pkg) {
			continue
		}
		if m := pkgClauseRe.FindSubmatch(src); m != nil && strings.HasPrefix(filepath.Base(p), "zz_vf_") {
			pkgName = string(m[1])
		}
		for _, m := range funcDecl.FindAllSubmatch(src, -1) {
			names = append(names, string(m[1]))
		}
	}
	sort.Strings(names)
	var sb strings.Builder
	fmt.Fprintf(&sb, "package %s\n\nimport (\n\t\"encoding/json\"\n\t\"fmt\"\n\t\"os\"\n\t\"testing\"\n)\n\n", pkgName)
	sb.WriteString("var vfHarnesses = map[string]func(){\n")
	for _, n := range names {
		fmt.Fprintf(&sb, "\t%q: %s,\n", n, n)
	}
	sb.WriteString("}\n\n")
	sb.WriteString(`func TestVFReplay(t *testing.T) {
	f := vfHarnesses[os.Getenv("VF_HARNESS")]
	if f == nil {
		t.Fatalf("no harness %q", os.Getenv("VF_HARNESS"))
	}
	vfReset()
	status := "ok"
	func() {
		defer func() {
			if r := recover(); r != nil {
				if _, ok := r.(vfAssumeFailed); ok {
					status = "assume-failed"
				} else {
					status = fmt.Sprintf("panic: %v", r)
				}
			}
		}()
		f()
	}()
	b, _ := json.Marshal(map[string]interface{}{"status": status, "failures": vfFailures, "observed": vfObserved})
	fmt.Println("VFREPLAY " + string(b))
}
`)
	ov[filepath.Join(repoSrc, pkg, "zz_vf_replay_test.go")] = []byte(sb.String())
	// neutralise the package's own tests (they are not needed and may not build)
	ents, _ := os.ReadDir(filepath.Join(repoSrc, pkg))
	for _, en := range ents {
		if strings.HasSuffix(en.Name(), "_test.go") {
			p := filepath.Join(repoSrc, pkg, en.Name())
			src, err := os.ReadFile(p)
			if err != nil {
				continue
			}
			if m := pkgClauseRe.Find(src); m != nil {
				ov[p] = append(append([]byte(nil), m...), '\n')
			}
		}
	}
	// write overlay files
	repl := map[string]string{}
	i := 0
	for p, src := range ov {
		fn := filepath.Join(r.dir, fmt.Sprintf("%s_%d_%s", strings.ReplaceAll(pkg, "/", "_"), i, filepath.Base(p)))
		i++
		if err := os.WriteFile(fn, src, 0644); err != nil {
			return "", err
		}
		repl[p] = fn
	}
	ovb, _ := json.Marshal(map[string]interface{}{"Replace": repl})
	ovf := filepath.Join(r.dir, strings.ReplaceAll(pkg, "/", "_")+".overlay.json")
	os.WriteFile(ovf, ovb, 0644)
	bin := filepath.Join(r.dir, strings.ReplaceAll(pkg, "/", "_")+".test")
	cmd := exec.Command("go", "test", "-c", "-vet=off", "-overlay", ovf, "-o", bin, "./"+pkg)
	cmd.Dir = repoSrc
	cmd.Env = append(os.Environ(), "GOFLAGS=-mod=mod", "GOPROXY=off", "GOSUMDB=off", "GOTOOLCHAIN=local")
	out, err := cmd.CombinedOutput()
	if err != nil {
		r.bins[pkg] = ""
		r.errs[pkg] = fmt.Sprintf("native replay build failed: %v\n%s", err, tail(string(out), 2000))
		return "", fmt.Errorf("%s", r.errs[pkg])
	}
	r.bins[pkg] = bin
	return bin, nil
}

func tail(s string, n int) string {
	if len(s) > n {
		return s[len(s)-n:]
	}
	return s
}

func (r *replayer) run(pkg, fn string, params map[string]int64, model map[string]uint64) (*replayOut, error) {
	bin, err := r.build(pkg)
	if err != nil {
		return nil, err
	}
	mf := filepath.Join(r.dir, fmt.Sprintf("model_%d.json", time.Now().UnixNano()))
	b, _ := json.Marshal(map[string]interface{}{"harness": fn, "model": model, "params": params})
	os.WriteFile(mf, b, 0644)
	defer os.Remove(mf)
	ctx, cancel := context.WithTimeout(context.Background(), 60*time.Second)
	defer cancel()
	cmd := exec.CommandContext(ctx, bin, "-test.run", "^TestVFReplay$", "-test.v", "-test.timeout", "50s")
	cmd.Dir = filepath.Join(repoSrc, pkg)
	cmd.Env = append(os.Environ(), "VF_MODEL="+mf, "VF_HARNESS="+fn)
	var ob bytes.Buffer
	cmd.Stdout = &ob
	cmd.Stderr = &ob
	err = cmd.Run()
	ro := &replayOut{}
	if ee, ok := err.(*exec.ExitError); ok {
		ro.Exit = ee.ExitCode()
	} else if err != nil {
		ro.Exit = -1
	}
	found := false
	for _, l := range strings.Split(ob.String(), "\n") {
		if i := strings.Index(l, "VFREPLAY "); i >= 0 {
			json.Unmarshal([]byte(l[i+9:]), ro)
			found = true
		}
	}
	if !found {
		ro.Status = "aborted"
		ro.Raw = tail(ob.String(), 600)
	}
	return ro, nil
}

// confirms reports whether the native run reproduces the engine's violation.
func confirms(v *gosym.Violation, ro *replayOut) bool {
	switch v.Kind {
	case "assert", "fail":
		for _, f := range ro.Failures {
			if f == v.Msg || (v.Kind == "fail" && strings.HasPrefix(f, "vfFail")) {
				return true
			}
		}
		return false
	case "abort":
		return ro.Status == "aborted" && ro.Exit != 0
	case "panic":
		return strings.HasPrefix(ro.Status, "panic:") || (ro.Status == "aborted" && ro.Exit != 0)
	}
	return false
}

// ---------------------------------------------------------------------------

type harnessEvidence struct {
	Name        string      `json:"name"`
	Stats       gosym.Stats `json:"stats"`
	Violations  int         `json:"violations"`
	Known       []string    `json:"known_findings_hit,omitempty"`
	WitnessesOK int         `json:"witnesses_replayed_natively"`
}

func checkMain(args []string) int {
	if len(args) < 1 {
		fmt.Println("usage: vcheck check <Cnn> [-tier quick|thorough] [-j N] [-only regexp] [-noreplay]")
		return 2
	}
	prop := args[0]
	tier := os.Getenv("VERIF_TIER")
	if tier == "" {
		tier = "quick"
	}
	nw := runtime.NumCPU()
	only := ""
	noReplay := false
	verbose := false
	jobLines := false // one summary line per harness run on stderr
	replayFile := ""
	for i := 1; i < len(args); i++ {
		switch args[i] {
		case "-tier", "--tier":
			i++
			tier = args[i]
		case "-j":
			i++
			fmt.Sscan(args[i], &nw)
		case "-only":
			i++
			only = args[i]
		case "-noreplay":
			noReplay = true
		case "-v":
			verbose = true
		case "-jobs":
			jobLines = true
		case "--replay", "-replay":
			i++
			replayFile = args[i]
		}
	}
	t0 := time.Now()
	seed := 0
	fmt.Sscan(os.Getenv("VERIF_SEED"), &seed)
	specs, err := parseDirectives()
	if err != nil {
		fmt.Println("INCONCLUSIVE directives:", err)
		return 2
	}
	sp := specs[prop]
	if sp == nil {
		fmt.Printf("INCONCLUSIVE no harness registered for %s\n", prop)
		return 2
	}
	if replayFile != "" {
		return replayMain(sp, replayFile)
	}
	known, err := loadKnown()
	if err != nil {
		fmt.Println("INCONCLUSIVE", err)
		return 2
	}
	var knownIDs []string
	knownWhat := map[string]string{}
	for _, k := range known {
		if k.Property == prop && k.Kind == "finding" {
			knownIDs = append(knownIDs, k.ID)
			knownWhat[k.ID] = k.What
		}
	}
	var jobs []Job
	var onlyRe *regexp.Regexp
	if only != "" {
		onlyRe = regexp.MustCompile(only)
	}
	for _, j := range sp.Jobs {
		if j.Tier == "thorough" && tier != "thorough" {
			continue
		}
		if j.Tier == "quickonly" && tier != "quick" {
			continue
		}
		if onlyRe != nil && !onlyRe.MatchString(j.Name()) {
			continue
		}
		j.Opts = map[string]int64{"timeout": 10000, "preempt": 2, "witnesses": 2, "maxpaths": 50000, "maxseconds": 900}
		if tier == "thorough" {
			j.Opts["timeout"] = 60000
			j.Opts["preempt"] = 3
			j.Opts["witnesses"] = 4
			j.Opts["maxpaths"] = 400000
			j.Opts["maxseconds"] = 3000
		}
		for k, v := range sp.Opts {
			if strings.HasPrefix(k, "thorough_") {
				if tier == "thorough" {
					j.Opts[strings.TrimPrefix(k, "thorough_")] = v
				}
				continue
			}
			if _, over := sp.Opts["thorough_"+k]; over && tier == "thorough" {
				continue
			}
			j.Opts[k] = v
		}
		if ms := os.Getenv("VF_MAXSECONDS"); ms != "" {
			// probing aid: cap every run's time budget (an exhausted budget is INCONCLUSIVE, never a pass)
			var v int64
			fmt.Sscan(ms, &v)
			if v > 0 {
				j.Opts["maxseconds"] = v
			}
		}
		for k, v := range j.Params {
			// opt_<name>=v on a job line overrides the option for that job only
			if strings.HasPrefix(k, "opt_") {
				j.Opts[strings.TrimPrefix(k, "opt_")] = v
			}
		}
		if verbose {
			j.Opts["verbose"] = 1
		}
		j.Known = knownIDs
		j.Solver = "z3-new"
		if s, ok := sp.SolverFor[j.Fn]; ok {
			j.Solver = s
		}
		if s := os.Getenv("VF_SOLVER"); s != "" {
			j.Solver = s
		}
		if tier == "thorough" {
			j.Cross = []string{"z3"}
		}
		jobs = append(jobs, j)
	}
	if len(jobs) == 0 {
		fmt.Printf("INCONCLUSIVE no jobs for %s tier %s\n", prop, tier)
		return 2
	}
	var pkgs []string
	for p := range sp.Pkgs {
		pkgs = append(pkgs, p)
	}
	sort.Strings(pkgs)
	fmt.Printf("%s tier=%s: %d harness runs over packages %v on %d workers\n", prop, tier, len(jobs), pkgs, min(nw, len(jobs)))
	var prog *os.File
	if verbose || jobLines {
		prog = os.Stderr
	}
	var results []*gosym.Result
	if prog != nil {
		results, err = runJobs(pkgs, jobs, nw, prog)
	} else {
		results, err = runJobs(pkgs, jobs, nw, nil)
	}
	if err != nil {
		fmt.Println("INCONCLUSIVE", err)
		return 2
	}

	// ---- aggregate
	var total gosym.Stats
	total.PathsByEnd = map[string]int{}
	funcs := map[string]int{}
	intr := map[string]int{}
	stubs := map[string]bool{}
	var hev []harnessEvidence
	var inconclusive []string
	var samples []interface{}
	exit := 0
	rp, _ := newReplayer()
	defer rp.close()
	tracesOK := 0
	knownHit := map[string]bool{}
	nviol := 0
	os.MkdirAll(filepath.Join(verifRoot, "replay", prop), 0755)
	replayClass := sp.Replay
	if replayClass == "" {
		replayClass = "N"
	}
	initNotes := map[string]bool{}
	propClass := replayClass
	for i, r := range results {
		j := jobs[i]
		replayClass := propClass
		if sp.ReplayE[j.Fn] {
			replayClass = "E"
		}
		st := r.Stats
		total.Paths += st.Paths
		for k, v := range st.PathsByEnd {
			total.PathsByEnd[k] += v
		}
		total.Branches += st.Branches
		total.Forks += st.Forks
		total.Asserts += st.Asserts
		total.AssertsTrivial += st.AssertsTrivial
		total.AssertsUnsat += st.AssertsUnsat
		total.AssertsSat += st.AssertsSat
		total.TwinViolated += st.TwinViolated
		total.TwinHeld += st.TwinHeld
		total.Steps += st.Steps
		total.Queries += st.Queries
		total.SolverSeconds += st.SolverSeconds
		total.Unknowns += st.Unknowns
		total.CrossChecked += st.CrossChecked
		total.CrossDisagree += st.CrossDisagree
		total.CrossUndecided += st.CrossUndecided
		total.SolverRestarts += st.SolverRestarts
		total.CrossSkipped += st.CrossSkipped
		if st.MaxQuerySec > total.MaxQuerySec {
			total.MaxQuerySec = st.MaxQuerySec
		}
		if st.MaxTermSize > total.MaxTermSize {
			total.MaxTermSize = st.MaxTermSize
		}
		for k, v := range r.Functions {
			funcs[k] += v
		}
		for k, v := range r.Intrinsics {
			intr[k] += v
		}
		for k := range r.Stubs {
			stubs[k] = true
		}
		for _, n := range r.InitNotes {
			initNotes[n] = true
		}
		he := harnessEvidence{Name: r.Harness, Stats: st}
		for _, m := range st.Inconclusive {
			inconclusive = append(inconclusive, r.Harness+": "+m)
		}
		// vacuity: a harness with a twin assertion must have seen it violated
		if st.TwinHeld > 0 && st.TwinViolated == 0 {
			inconclusive = append(inconclusive, r.Harness+": vacuous (twin assertion never violated)")
		}
		if st.Paths > 0 && st.PathsByEnd["ok"] == 0 && st.PathsByEnd["abort"] == 0 && len(r.Violations) == 0 && len(r.Known) == 0 && len(st.Inconclusive) == 0 {
			inconclusive = append(inconclusive, r.Harness+": vacuous (no path reached the end)")
		}
		// known findings
		for _, k := range r.Known {
			if !knownHit[k.Known] {
				knownHit[k.Known] = true
			}
			he.Known = append(he.Known, k.Known)
		}
		// witnesses
		for wi, w := range r.Witnesses {
			if len(samples) < 6 {
				samples = append(samples, map[string]interface{}{"harness": r.Harness, "model": w.Model, "observed": w.Observed, "end": w.End})
			}
			if noReplay || replayClass != "N" || w.End != "ok" || wi >= int(j.Opts["witnesses"]) {
				continue
			}
			ro, err := rp.run(j.Pkg, j.Fn, j.Params, w.Model)
			if err != nil {
				inconclusive = append(inconclusive, r.Harness+": "+err.Error())
				break
			}
			ok := ro.Status == "ok" && len(ro.Failures) == 0
			if ok {
				for k, v := range w.Observed {
					if nv, has := ro.Observed[k]; has && nv != v {
						ok = false
						inconclusive = append(inconclusive, fmt.Sprintf("ENCODER-MISMATCH %s: observation %s engine=%q native=%q model=%v", r.Harness, k, v, nv, w.Model))
					}
				}
			} else {
				inconclusive = append(inconclusive, fmt.Sprintf("ENCODER-MISMATCH %s: witness path ends ok in the engine, natively status=%s failures=%v model=%v %s", r.Harness, ro.Status, ro.Failures, w.Model, ro.Raw))
			}
			if ok {
				tracesOK++
				he.WitnessesOK++
			}
		}
		// violations: replay before reporting (first few per harness)
		reported := 0
		for vi := range r.Violations {
			v := &r.Violations[vi]
			if reported >= 3 {
				break
			}
			if len(samples) < 8 {
				samples = append(samples, map[string]interface{}{"harness": r.Harness, "violation": v.Msg, "model": v.Model, "observed": v.Observed})
			}
			confirmed := false
			detail := ""
			if noReplay {
				fmt.Printf("CANDIDATE %s: %s [%s] observed=%v model=%v\n", r.Harness, v.Msg, v.Kind, v.Observed, v.Model)
				exit = 1
				reported++
				continue
			}
			if replayClass == "N" {
				ro, err := rp.run(j.Pkg, j.Fn, j.Params, v.Model)
				if err != nil {
					inconclusive = append(inconclusive, r.Harness+": "+err.Error())
					continue
				}
				confirmed = confirms(v, ro)
				detail = fmt.Sprintf("native status=%s failures=%v exit=%d", ro.Status, ro.Failures, ro.Exit)
			} else {
				// engine-concrete re-execution with the model and the schedule
				cj := j
				cj.ForcedModel = v.Model
				cj.Concrete = false
				for _, d := range v.Decisions {
					if d.Kind == 2 {
						cj.ForcedSchedule = append(cj.ForcedSchedule, int(d.Val))
					}
				}
				if cj.ForcedSchedule == nil {
					cj.ForcedSchedule = []int{}
				}
				rr, err := runJobs(pkgs, []Job{cj}, 1, nil)
				if err == nil && len(rr) == 1 {
					for _, v2 := range rr[0].Violations {
						if v2.Kind == v.Kind && (v2.Msg == v.Msg || v.Kind != "assert") {
							confirmed = true
						}
					}
					detail = fmt.Sprintf("engine-concrete replay: %d violation(s), inconclusive=%v", len(rr[0].Violations), rr[0].Stats.Inconclusive)
				}
			}
			if !confirmed {
				inconclusive = append(inconclusive, fmt.Sprintf("ENCODER-MISMATCH %s: counterexample for %q did not reproduce (%s) model=%v", r.Harness, v.Msg, detail, v.Model))
				continue
			}
			nviol++
			reported++
			he.Violations++
			rf := filepath.Join(verifRoot, "replay", prop, fmt.Sprintf("%s-%d.json", sanitizeName(r.Harness), vi))
			b, _ := json.MarshalIndent(map[string]interface{}{"property": prop, "harness": j.Fn, "pkg": j.Pkg, "params": j.Params, "kind": v.Kind, "msg": v.Msg, "model": v.Model, "decisions": v.Decisions, "observed": v.Observed, "replay_class": replayClass, "replay_detail": detail}, "", " ")
			os.WriteFile(rf, b, 0644)
			fmt.Printf("VIOLATION property=%s replay=%s\n", prop, rf)
			fmt.Printf("  %s: %s [%s] observed=%v\n", r.Harness, v.Msg, v.Kind, v.Observed)
			exit = 1
		}
		hev = append(hev, he)
	}
	var khs []string
	for k := range knownHit {
		khs = append(khs, k)
	}
	sort.Strings(khs)
	for _, k := range khs {
		fmt.Printf("KNOWN-FINDING: property=%s %s: %s\n", prop, k, knownWhat[k])
	}
	sort.Strings(inconclusive)
	for _, m := range inconclusive {
		fmt.Println("INCONCLUSIVE", m)
	}
	if len(inconclusive) > 0 && exit == 0 {
		exit = 2
	}
	total.WallSeconds = time.Since(t0).Seconds()
	if len(samples) == 0 {
		samples = append(samples, map[string]interface{}{"note": "no witness recorded"})
	}
	var fnames []string
	for k := range funcs {
		fnames = append(fnames, k)
	}
	sort.Strings(fnames)
	ver := solverVersions()
	var notes []string
	for n := range initNotes {
		notes = append(notes, n)
	}
	sort.Strings(notes)
	ev := map[string]interface{}{
		"property_id": prop,
		"tier":        tier,
		"seed":        seed,
		"level":       "model_checking",
		"wall_s":      total.WallSeconds,
		"violations":  nviol,
		"coverage": map[string]interface{}{
			"states":                        total.Paths,
			"transitions":                   total.Branches,
			"traces_validated_against_impl": tracesOK,
			"samples":                       samples,
			"exhaustive":                    len(inconclusive) == 0,
			"explanation":                   "states = symbolic paths explored to completion (each path covers all values of the symbolic inputs satisfying its path condition); transitions = branch decisions on non-constant conditions decided by the SMT solver; traces_validated = solver models of completed paths replayed against the natively compiled code with matching observations",
			"harness_runs":                  len(jobs),
			"assert_queries":                total.Asserts,
			"asserts_unsat":                 total.AssertsUnsat,
			"asserts_sat":                   total.AssertsSat,
			"asserts_constant_true":         total.AssertsTrivial,
			"twin_asserts_violated":         total.TwinViolated,
			"paths_by_end":                  total.PathsByEnd,
			"solver_queries":                total.Queries,
			"solver_seconds":                total.SolverSeconds,
			"max_query_seconds":             total.MaxQuerySec,
			"solver_unknowns":               total.Unknowns,
			"cross_checked_queries":         total.CrossChecked,
			"cross_disagreements":           total.CrossDisagree,
			"cross_undecided":               total.CrossUndecided,
			"solver_restarts":               total.SolverRestarts,
			"cross_not_sampled":             total.CrossSkipped,
			"ssa_instructions_executed":     total.Steps,
			"max_assert_term_nodes":         total.MaxTermSize,
			"functions_encoded":             fnames,
			"functions_encoded_count":       len(fnames),
			"intrinsics_used":               intr,
			"stubs_used":                    keys(stubs),
			"declared_stubs":                sp.Stubs,
			"harnesses":                     hev,
			"solver":                        ver,
			"outside_claim":                 sp.Outside,
			"known_findings_hit":            khs,
			"inconclusive":                  inconclusive,
			"replay_class":                  replayClass,
			"engine_notes":                  notes,
		},
		"assumptions": assumptionsOf(sp),
	}
	evDir := filepath.Join(verifRoot, "evidence")
	if d := os.Getenv("VF_EVIDENCE_DIR"); d != "" {
		evDir = d
	} else if os.Getenv("VF_REPO_SRC") != "" || onlyRe != nil {
		// seeded-change trials and partial (-only) runs never overwrite the committed evidence
		evDir = filepath.Join(os.TempDir(), "vf-partial-evidence")
	}
	os.MkdirAll(evDir, 0755)
	b, _ := json.MarshalIndent(ev, "", " ")
	os.WriteFile(filepath.Join(evDir, prop+".json"), b, 0644)
	fmt.Printf("%s: %d paths, %d solver-decided branches, %d assertion queries (%d unsat, %d sat), %d constant-true, %d witnesses replayed natively, %.1fs solver, %.1fs wall => exit %d\n",
		prop, total.Paths, total.Branches, total.Asserts, total.AssertsUnsat, total.AssertsSat, total.AssertsTrivial, tracesOK, total.SolverSeconds, total.WallSeconds, exit)
	return exit
}

func keys(m map[string]bool) []string {
	var r []string
	for k := range m {
		r = append(r, k)
	}
	sort.Strings(r)
	return r
}

func sanitizeName(s string) string {
	return regexp.MustCompile(`[^A-Za-z0-9_.=-]`).ReplaceAllString(s, "_")
}

func solverVersions() map[string]string {
	r := map[string]string{}
	for _, k := range []string{"z3-new", "z3", "cvc5"} {
		out, err := exec.Command(k, "--version").Output()
		if err == nil {
			r[k] = strings.TrimSpace(strings.SplitN(string(out), "\n", 2)[0])
		}
	}
	return r
}

// replayMain re-runs one recorded counterexample.
func replayMain(sp *PropSpec, file string) int {
	b, err := os.ReadFile(file)
	if err != nil {
		fmt.Println("cannot read", file, err)
		return 2
	}
	var rec struct {
		Harness string            `json:"harness"`
		Pkg     string            `json:"pkg"`
		Params  map[string]int64  `json:"params"`
		Kind    string            `json:"kind"`
		Msg     string            `json:"msg"`
		Model   map[string]uint64 `json:"model"`
		Class   string            `json:"replay_class"`
	}
	if err := json.Unmarshal(b, &rec); err != nil {
		fmt.Println("bad replay file:", err)
		return 2
	}
	rp, _ := newReplayer()
	defer rp.close()
	ro, err := rp.run(rec.Pkg, rec.Harness, rec.Params, rec.Model)
	if err != nil {
		fmt.Println(err)
		return 2
	}
	fmt.Printf("native replay of %s: status=%s failures=%v exit=%d observed=%v\n%s\n", rec.Harness, ro.Status, ro.Failures, ro.Exit, ro.Observed, ro.Raw)
	v := gosym.Violation{Kind: rec.Kind, Msg: rec.Msg}
	if confirms(&v, ro) {
		fmt.Printf("VIOLATION property=%s replay=%s\n", sp.ID, file)
		return 1
	}
	fmt.Println("not reproduced")
	return 0
}

// assumptionsOf lists what the verdict rests on: the harness's declared assumptions, its declared
// stubs, and the trusted base common to every check. Never nil (the evidence schema wants an array).
func assumptionsOf(sp *PropSpec) []string {
	out := []string{}
	out = append(out, sp.Assume...)
	for _, st := range sp.Stubs {
		out = append(out, "stub: "+st)
	}
	out = append(out, "trusted base: go/ssa lowering of the current source, the gosym encoder with the intrinsics listed under coverage.intrinsics_used, the SMT back ends listed under coverage.solver; bounds are the harness parameters listed per run, everything under coverage.outside_claim is outside the verdict")
	return out
}
