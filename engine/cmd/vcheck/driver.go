package main

import (
	"bufio"
	"encoding/json"
	"fmt"
	"io"
	"os"
	"os/exec"
	"path/filepath"
	"regexp"
	"runtime/pprof"
	"sort"
	"strconv"
	"strings"
	"sync"
	"time"

	"gosym/gosym"
)

const (
	verifRoot   = "/verif"
	harnessRoot = "/verif/harness/src"
	apiFile     = "/verif/harness/vfapi.go"
)

// repoSrc is the module root under analysis: always /repo/src for the registered commands; the
// environment variable VF_REPO_SRC redirects it to a scratch worktree for seeded-change trials only
// (the evidence then goes to $VF_EVIDENCE_DIR, never to /verif/evidence).
var repoSrc = func() string {
	if p := os.Getenv("VF_REPO_SRC"); p != "" {
		return p
	}
	return "/repo/src"
}()

type Job struct {
	Prop           string            `json:"prop"`
	Tier           string            `json:"tier"`
	Fn             string            `json:"fn"`
	Pkg            string            `json:"pkg"` // relative dir, e.g. redis-shake/common
	Params         map[string]int64  `json:"params"`
	Opts           map[string]int64  `json:"opts"`
	Concrete       bool              `json:"concrete,omitempty"`
	ForcedModel    map[string]uint64 `json:"forced_model,omitempty"`
	ForcedSchedule []int             `json:"forced_schedule,omitempty"`
	Known          []string          `json:"known,omitempty"`
	Cross          []string          `json:"cross,omitempty"`
	Solver         string            `json:"solver,omitempty"`
}

func (j *Job) Name() string {
	var ks []string
	for k := range j.Params {
		ks = append(ks, k)
	}
	sort.Strings(ks)
	s := j.Fn
	for _, k := range ks {
		s += fmt.Sprintf(",%s=%d", k, j.Params[k])
	}
	return s
}

type PropSpec struct {
	ID        string
	Jobs      []Job
	Pkgs      map[string]bool
	Opts      map[string]int64
	Assume    []string
	Outside   []string
	Stubs     []string
	Replay    string // N or E
	ReplayE   map[string]bool
	SolverFor map[string]string
}

var directive = regexp.MustCompile(`^//vf:(\w+)\s+(C\d+)\s*(.*)$`)

// parseDirectives scans the harness tree.
func parseDirectives() (map[string]*PropSpec, error) {
	specs := map[string]*PropSpec{}
	get := func(id string) *PropSpec {
		if specs[id] == nil {
			specs[id] = &PropSpec{ID: id, Pkgs: map[string]bool{}, Opts: map[string]int64{}}
		}
		return specs[id]
	}
	err := filepath.Walk(harnessRoot, func(p string, info os.FileInfo, err error) error {
		if err != nil || info.IsDir() || !strings.HasSuffix(p, ".go") {
			return err
		}
		rel, _ := filepath.Rel(harnessRoot, filepath.Dir(p))
		f, err := os.Open(p)
		if err != nil {
			return err
		}
		defer f.Close()
		sc := bufio.NewScanner(f)
		sc.Buffer(make([]byte, 1<<20), 1<<20)
		for sc.Scan() {
			m := directive.FindStringSubmatch(strings.TrimSpace(sc.Text()))
			if m == nil {
				continue
			}
			sp := get(m[2])
			rest := strings.TrimSpace(m[3])
			switch m[1] {
			case "job":
				fs := strings.Fields(rest)
				if len(fs) < 2 {
					return fmt.Errorf("%s: bad job directive %q", p, rest)
				}
				tier, fn := fs[0], fs[1]
				base := Job{Prop: sp.ID, Tier: tier, Fn: fn, Pkg: rel, Params: map[string]int64{}}
				jobs := []Job{base}
				for _, kv := range fs[2:] {
					parts := strings.SplitN(kv, "=", 2)
					if len(parts) != 2 {
						return fmt.Errorf("%s: bad param %q", p, kv)
					}
					vals, err := expandRange(parts[1])
					if err != nil {
						return fmt.Errorf("%s: %v", p, err)
					}
					var nj []Job
					for _, j := range jobs {
						for _, v := range vals {
							c := j
							c.Params = map[string]int64{}
							for k, x := range j.Params {
								c.Params[k] = x
							}
							c.Params[parts[0]] = v
							nj = append(nj, c)
						}
					}
					jobs = nj
				}
				sp.Jobs = append(sp.Jobs, jobs...)
				sp.Pkgs[rel] = true
			case "opt":
				for _, kv := range strings.Fields(rest) {
					parts := strings.SplitN(kv, "=", 2)
					v, _ := strconv.ParseInt(parts[1], 10, 64)
					sp.Opts[parts[0]] = v
				}
			case "assume":
				sp.Assume = append(sp.Assume, rest)
			case "outside":
				sp.Outside = append(sp.Outside, rest)
			case "stub":
				sp.Stubs = append(sp.Stubs, rest)
			case "pkg":
				sp.Pkgs[rest] = true
			case "replay":
				sp.Replay = rest
			case "solver":
				fs := strings.Fields(rest)
				if sp.SolverFor == nil {
					sp.SolverFor = map[string]string{}
				}
				if len(fs) == 2 {
					sp.SolverFor[fs[0]] = fs[1]
				}
			case "replayE":
				if sp.ReplayE == nil {
					sp.ReplayE = map[string]bool{}
				}
				for _, f := range strings.Fields(rest) {
					sp.ReplayE[f] = true
				}
			}
		}
		return sc.Err()
	})
	return specs, err
}

func expandRange(s string) ([]int64, error) {
	var out []int64
	for _, part := range strings.Split(s, ",") {
		if i := strings.Index(part, ".."); i >= 0 {
			lo, err1 := strconv.ParseInt(part[:i], 10, 64)
			hi, err2 := strconv.ParseInt(part[i+2:], 10, 64)
			if err1 != nil || err2 != nil {
				return nil, fmt.Errorf("bad range %q", part)
			}
			for v := lo; v <= hi; v++ {
				out = append(out, v)
			}
		} else {
			v, err := strconv.ParseInt(part, 10, 64)
			if err != nil {
				return nil, fmt.Errorf("bad value %q", part)
			}
			out = append(out, v)
		}
	}
	return out, nil
}

// ---------------------------------------------------------------------------
// worker: loads packages once, runs jobs read from stdin

type workerInit struct {
	Pkgs []string `json:"pkgs"`
}

func workerMain() {
	if pf := os.Getenv("VF_PPROF"); pf != "" {
		// development aid: CPU profile of a worker
		if f, err := os.Create(fmt.Sprintf("%s.%d", pf, os.Getpid())); err == nil {
			pprof.StartCPUProfile(f)
			defer pprof.StopCPUProfile()
		}
	}
	in := bufio.NewReaderSize(os.Stdin, 1<<20)
	out := bufio.NewWriter(os.Stdout)
	enc := json.NewEncoder(out)
	line, err := in.ReadBytes('\n')
	if err != nil {
		fmt.Fprintln(os.Stderr, "worker: no init line")
		os.Exit(2)
	}
	var wi workerInit
	json.Unmarshal(line, &wi)
	only := map[string]bool{}
	var patterns []string
	for _, p := range wi.Pkgs {
		only[p] = true
		patterns = append(patterns, "./"+p)
	}
	ov, _, err := gosym.BuildOverlay(repoSrc, harnessRoot, apiFile, only)
	if err != nil {
		enc.Encode(map[string]string{"fatal": "overlay: " + err.Error()})
		out.Flush()
		os.Exit(2)
	}
	ld, err := gosym.Load(repoSrc, patterns, ov)
	if err != nil {
		enc.Encode(map[string]string{"fatal": "load: " + err.Error()})
		out.Flush()
		os.Exit(2)
	}
	engines := map[string]*gosym.Engine{}
	enc.Encode(map[string]string{"ready": "1"})
	out.Flush()
	for {
		line, err := in.ReadBytes('\n')
		if err != nil {
			return
		}
		var j Job
		if err := json.Unmarshal(line, &j); err != nil {
			continue
		}
		pkgPath := gosym.ModulePath + "/" + j.Pkg
		sp := ld.SSA[pkgPath]
		var res *gosym.Result
		if sp == nil || sp.Func(j.Fn) == nil {
			res = &gosym.Result{Harness: j.Name()}
			res.Stats.Inconclusive = []string{"harness function not found: " + j.Pkg + "." + j.Fn}
		} else {
			key := j.Pkg
			e := engines[key]
			if e == nil {
				e = gosym.NewEngine(ld.Prog, gosym.Options{})
				e.RunInit(sp)
				engines[key] = e
			}
			opts := gosym.Options{Solver: j.Solver, TimeoutMS: int(j.Opts["timeout"]), Preempt: int(j.Opts["preempt"]),
				MaxPaths: int(j.Opts["maxpaths"]), MaxSteps: int(j.Opts["maxsteps"]), MaxSeconds: float64(j.Opts["maxseconds"]),
				Witnesses: int(j.Opts["witnesses"]), Concrete: j.Concrete, ForcedModel: j.ForcedModel, ForcedSchedule: j.ForcedSchedule,
				KnownFindings: map[string]bool{}, CrossSolvers: j.Cross, Verbose: int(j.Opts["verbose"]), DelayBound: j.Opts["delaybound"] == 1, GlobalYield: j.Opts["globalyield"] == 1}
			for _, k := range j.Known {
				opts.KnownFindings[k] = true
			}
			e.SetOptions(opts)
			e.ClearParams()
			for k, v := range j.Params {
				e.SetParam(k, v)
			}
			res = e.Run(sp.Func(j.Fn), j.Name())
			res.Params = j.Name()
			res.InitNotes = e.InitNotes
		}
		enc.Encode(res)
		out.Flush()
	}
}

// ---------------------------------------------------------------------------
// pool of workers

type pool struct {
	pkgs []string
	n    int
}

func runJobs(pkgs []string, jobs []Job, nworkers int, progress io.Writer) ([]*gosym.Result, error) {
	if nworkers > len(jobs) {
		nworkers = len(jobs)
	}
	if nworkers < 1 {
		nworkers = 1
	}
	results := make([]*gosym.Result, len(jobs))
	var mu sync.Mutex
	next := 0
	var firstErr error
	var wg sync.WaitGroup
	self, _ := os.Executable()
	for w := 0; w < nworkers; w++ {
		wg.Add(1)
		go func(w int) {
			defer wg.Done()
			cmd := exec.Command(self, "worker")
			cmd.Stderr = os.Stderr
			stdin, _ := cmd.StdinPipe()
			stdout, _ := cmd.StdoutPipe()
			if err := cmd.Start(); err != nil {
				mu.Lock()
				firstErr = err
				mu.Unlock()
				return
			}
			defer func() { stdin.Close(); cmd.Wait() }()
			rd := bufio.NewReaderSize(stdout, 1<<20)
			b, _ := json.Marshal(workerInit{Pkgs: pkgs})
			stdin.Write(append(b, '\n'))
			line, err := rd.ReadBytes('\n')
			if err != nil || !strings.Contains(string(line), "ready") {
				mu.Lock()
				if firstErr == nil {
					firstErr = fmt.Errorf("worker failed to start: %s %v", strings.TrimSpace(string(line)), err)
				}
				mu.Unlock()
				return
			}
			for {
				mu.Lock()
				if next >= len(jobs) || firstErr != nil {
					mu.Unlock()
					return
				}
				i := next
				next++
				mu.Unlock()
				b, _ := json.Marshal(jobs[i])
				stdin.Write(append(b, '\n'))
				line, err := rd.ReadBytes('\n')
				if err != nil {
					r := &gosym.Result{Harness: jobs[i].Name()}
					r.Stats.Inconclusive = []string{"worker died while running this job: " + err.Error()}
					mu.Lock()
					results[i] = r
					mu.Unlock()
					// restart is not attempted: remaining jobs go to other workers
					return
				}
				var r gosym.Result
				if err := json.Unmarshal(line, &r); err != nil {
					r.Harness = jobs[i].Name()
					r.Stats.Inconclusive = []string{"bad worker output: " + err.Error()}
				}
				mu.Lock()
				results[i] = &r
				if progress != nil {
					st := r.Stats
					fmt.Fprintf(progress, "  %-60s paths=%d asserts=%d unsat=%d sat=%d q=%d %.1fs %s\n", r.Harness, st.Paths, st.Asserts+st.AssertsTrivial, st.AssertsUnsat, st.AssertsSat, st.Queries, st.WallSeconds, strings.Join(st.Inconclusive, "; "))
				}
				mu.Unlock()
			}
		}(w)
	}
	wg.Wait()
	if firstErr != nil {
		return nil, firstErr
	}
	for i, r := range results {
		if r == nil {
			r = &gosym.Result{Harness: jobs[i].Name()}
			r.Stats.Inconclusive = []string{"job was not run (workers exhausted)"}
			results[i] = r
		}
	}
	return results, nil
}

// ---------------------------------------------------------------------------
// known findings

type KnownFinding struct {
	Property string `json:"property"`
	ID       string `json:"id"`
	Kind     string `json:"kind"` // finding | fixed
	Guard    string `json:"guard,omitempty"`
	What     string `json:"what"`
	Commit   string `json:"commit,omitempty"`
}

func loadKnown() ([]KnownFinding, error) {
	f, err := os.Open(filepath.Join(verifRoot, "known_findings.jsonl"))
	if err != nil {
		if os.IsNotExist(err) {
			return nil, nil
		}
		return nil, err
	}
	defer f.Close()
	var out []KnownFinding
	sc := bufio.NewScanner(f)
	sc.Buffer(make([]byte, 1<<20), 1<<20)
	for sc.Scan() {
		l := strings.TrimSpace(sc.Text())
		if l == "" || strings.HasPrefix(l, "#") {
			continue
		}
		var k KnownFinding
		if err := json.Unmarshal([]byte(l), &k); err != nil {
			return nil, fmt.Errorf("known_findings.jsonl: %v", err)
		}
		out = append(out, k)
	}
	return out, nil
}

var _ = time.Now
